"""C34 — Flight and HTTP return the same answer.
Theorems: coq/theories/Props/C34.v over C34/Model.v (flight.rs: ticket validation, minting, the 4096-row slicing of
encode_flight_stream, the metadata trailer, the error vocabulary) on top of C35/Model.v (execute_statement, POST /sql).
Correspondence: REAL in-process nodes (single nodes and clusters, spawned once); every generated statement goes through
POST /sql?format=arrow and through the Flight sequence GetFlightInfo -> DoGet(ticket) (+ GetSchema) with a tonic client, in
each mode; schema, rows, distribution decision, reason and the trailer are compared door against door and against the
engine run in-process; tampered tickets (truncated, oversized, wrong version, garbage, unknown mode, duplicate keys,
positional form ..) are sent to DoGet and the verdict compared with `ticket_validate`.
Audited from SOURCE every run: both handlers (server.rs `sql`, flight.rs `do_get`) call the one `execute_statement`
and run no SQL by any other route (lib/frontdoor.py source_audit)."""
import json

import frontdoor as fd
import vlib
from vlib import zlit, blit

REQ = "From QV Require Import C35.Model C34.Model."
CAP = fd.CAP
BASE_SQL = "SELECT k FROM t"
MODE_OF_WORD = {"auto": "Auto", **{w: "Force" for w in fd.FORCE_WORDS}, **{w: "Off" for w in fd.OFF_WORDS}, "off": "Off"}
REFUSALS = [("ticket exceeds", "TooBig"), ("malformed ticket", "Malformed"), ("unknown ticket version", "BadVersion"),
            ("unknown distributed mode", "BadMode")]
CMD_REFUSALS = ("command exceeds", "command is not valid UTF-8", "empty command", "malformed command JSON",
                "empty sql in command JSON", "unknown distributed mode", "GetFlightInfo needs a command descriptor")
ESCAPED_SQL = ["SELECT k,\n\ts FROM t", "SELECT 'a\"b' AS q FROM t", "SELECT 'c\\d' AS r, k FROM t WHERE k < 3",
               "SELECT 'é' AS e, k FROM t", "SELECT 'x\x01y' AS c FROM t WHERE k = 1", "  SELECT k FROM t  \r\n",
               "SELECT \"k\" FROM t"]


# ----------------------------------------------------------------------------------------------
# cases
# ----------------------------------------------------------------------------------------------
def stmt(rng, cluster, node, sql, tag, modes=None):
    fw, ow = rng.choice(fd.FORCE_WORDS), rng.choice(fd.OFF_WORDS + ["off"])
    http = [rng.choice(["", "format=arrow", "distributed=auto", "format=ipc&distributed=auto"]),
            "distributed=" + fw, "distributed=" + (ow if ow != "off" else "0")]
    flight = [None, "auto", fw, ow] if modes is None else modes
    return {"op": "stmt", "cluster": cluster, "node": node, "sql": sql, "http": http, "flight": flight, "tag": tag}


def gen_ticket(rng):
    """A tampered (or valid) ticket as bytes, derived from a minted one."""
    sql = rng.choice([BASE_SQL, "SELECT s FROM t WHERE k < 3", "SELECT COUNT(*) AS c FROM big", "SELECT nope FROM t", ""])
    mode = rng.choice(["auto", "auto", "force", "off", "1", "0", "yes", "no", "true", "false", "local", "bogus", "AUTO", "", "Off"])
    good = json.dumps({"v": 1, "sql": sql, "mode": mode}, separators=(",", ":"))
    k = rng.choice(["good", "good", "truncate", "truncate", "version", "version", "garbage", "dup", "array", "types", "extra",
                    "missing", "space", "flip", "nest", "trailing", "nomode"])
    if k == "good":
        return good.encode()
    if k == "truncate":
        return good.encode()[:rng.randint(0, len(good) - 1)]
    if k == "version":
        v = rng.choice(["0", "2", "-1", "4294967295", "4294967296", "1.0", "1e0", "\"1\"", "true", "null", "[1]", "10", "01",
                        "18446744073709551616"])
        return ('{"v":%s,"sql":%s,"mode":%s}' % (v, json.dumps(sql), json.dumps(mode))).encode()
    if k == "garbage":
        return rng.choice([b"", b"null", b"{}", b"[]", b"42", b"\"ticket\"", b"{'v':1}", b"\xff\xfe{", b"{\"v\":1,\"sql\":\"\xff\"}",
                           b"not json at all", b"{\"v\":1 \"sql\":\"x\"}", b"[1]", b"{\"v\":NaN,\"sql\":\"x\"}"])
    if k == "dup":
        f = rng.choice(["v", "sql", "mode", "zzz"])
        extra = {"v": '"v":1', "sql": '"sql":%s' % json.dumps(sql), "mode": '"mode":"auto"', "zzz": '"zzz":1,"zzz":2'}[f]
        pos = rng.choice(["front", "back"])
        body = good[1:-1]
        return ("{" + (extra + "," + body if pos == "front" else body + "," + extra) + "}").encode()
    if k == "array":
        return rng.choice(['[1,%s,%s]' % (json.dumps(sql), json.dumps(mode)), '[1,%s]' % json.dumps(sql), '[1]',
                           '[1,%s,%s,5]' % (json.dumps(sql), json.dumps(mode)), '[2,%s]' % json.dumps(sql),
                           '[%s,1]' % json.dumps(sql), '[1,%s,null]' % json.dumps(sql)]).encode()
    if k == "types":
        return rng.choice(['{"v":1,"sql":42}', '{"v":1,"sql":null}', '{"v":1,"sql":["x"]}', '{"v":1,"sql":%s,"mode":null}' % json.dumps(sql),
                           '{"v":1,"sql":%s,"mode":1}' % json.dumps(sql), '{"v":1,"sql":{"a":1}}', '{"v":{"a":1},"sql":"x"}']).encode()
    if k == "extra":
        return ('{"note":[1,{"a":null}],"v":1,"sql":%s,"mode":%s,"z":{"v":2}}' % (json.dumps(sql), json.dumps(mode))).encode()
    if k == "missing":
        return rng.choice(['{"sql":%s}' % json.dumps(sql), '{"v":1}', '{"v":1,"mode":"auto"}', '{"mode":"auto"}']).encode()
    if k == "space":
        return (" \n\t" + good.replace(",", " ,\n ") + "  ").encode()
    if k == "flip":
        b = bytearray(good.encode())
        i = rng.randrange(len(b))
        b[i] = rng.choice([0, 34, 44, 58, 92, 123, 125, 255, b[i] ^ 1])
        return bytes(b)
    if k == "nest":
        return ('{"ticket":%s}' % good).encode()
    if k == "trailing":
        return (good + rng.choice([" x", "{}", ",", "\x00"])).encode()
    return ('{"v":1,"sql":%s}' % json.dumps(sql)).encode()


def build_cases(ctx):
    rng = ctx.rng
    cases = [fd.setup_case()]
    where = [("single", 0)] * 3 + [("tri", 0), ("tri", 1), ("tri", 2)] * 2 + [("duo", 0), ("lonely", 0), ("bad", 0), ("failpeer", 0),
                                                                               ("unk1", 0), ("unk3", 0)]
    for _ in range(ctx.n(30, 500)):
        cl, node = rng.choice(where)
        sql, fam = fd.gen_statement(rng)
        cases.append(stmt(rng, cl, node, sql, fam))
    # results of 0, 1, 4096, 4097 and 10000 rows through single nodes (8192-row engine batches are re-sliced) and clusters
    for cl in ("single", "tri"):
        for lo in (10000, 9999, 5904, 5903, 0):
            cases.append(stmt(rng, cl, 0, "SELECT id, s FROM big WHERE id >= %d" % lo, "sizes"))
    # results that reach the Flight door as ONE batch of more than 8192 rows (sort / aggregation output): more than two
    # 4096-row messages out of a single batch
    for cl in ("single", "tri"):
        for sql in ("SELECT id, s FROM huge ORDER BY id", "SELECT id, g FROM huge WHERE id < 8193 ORDER BY id",
                    "SELECT id, s FROM huge WHERE id < 12289 ORDER BY id DESC", "SELECT id, COUNT(*) AS c FROM huge GROUP BY id"):
            cases.append(stmt(rng, cl, 0, sql, "single-batch", modes=[None, rng.choice(fd.OFF_WORDS + ["off"])]))
    for _ in range(ctx.n(4, 60)):
        cases.append(stmt(rng, rng.choice(["single", "tri", "duo", "lonely"]), 0, fd.gen_single_batch(rng), "single-batch",
                          modes=[rng.choice([None, "auto"]), rng.choice(fd.OFF_WORDS), rng.choice(fd.FORCE_WORDS)]))
    for sql in ESCAPED_SQL:
        cases.append(stmt(rng, rng.choice(["single", "tri"]), 0, sql, "escapes"))
    # not-ready nodes and peers that fail their fragment
    for cl in ("failpeer", "blockpeer"):
        cases.append(stmt(rng, cl, 1, BASE_SQL, "notready"))
        cases.append(stmt(rng, cl, 0, "SELECT g, COUNT(*) AS c FROM big GROUP BY g", "peerfails"))
    cases.append(stmt(rng, "bad", 0, "SELECT g, SUM(v) AS sv FROM big GROUP BY g", "peerfails"))
    # statements around the caps: the ticket is the statement plus 30 bytes (mode auto, nothing to escape)
    pre, suf = BASE_SQL + " /*", "*/"
    for L in (CAP - 31, CAP - 30, CAP - 29, CAP, CAP + 1):
        c = {"op": "stmt", "cluster": "single", "node": 0, "sql": {"prefix": pre, "pad": L - len(pre) - len(suf), "byte": 120, "suffix": suf},
             "http": [""], "flight": [None], "tag": "cap"}
        cases.append(c)
    # ... and a much shorter statement whose JSON escaping doubles it
    cases.append({"op": "stmt", "cluster": "single", "node": 0, "sql": {"prefix": pre, "pad": 600000, "byte": 34, "suffix": suf},
                  "http": [""], "flight": [None], "tag": "cap"})
    # tickets
    for _ in range(ctx.n(120, 2500)):
        cases.append({"op": "ticket", "cluster": rng.choice(["single", "single", "tri"]), "node": 0, "ticket": {"bytes": list(gen_ticket(rng))},
                      "tag": "ticket"})
    tp, ts = '{"v":1,"sql":"' + BASE_SQL + " /*", '*/","mode":"auto"}'
    for total in (CAP - 1, CAP, CAP + 1, CAP + 4096, 3 * CAP):
        cases.append({"op": "ticket", "cluster": "single", "node": 0, "ticket": {"prefix": tp, "pad": total - len(tp) - len(ts), "byte": 120, "suffix": ts},
                      "tag": "ticket"})
    for cl in ("failpeer", "blockpeer"):
        cases.append({"op": "ticket", "cluster": cl, "node": 1, "ticket": {"bytes": list(b'{"v":1,"sql":"SELECT k FROM t","mode":"auto"}')}, "tag": "ticket"})
        cases.append({"op": "ticket", "cluster": cl, "node": 1, "ticket": {"bytes": list(b'{"v":7,"sql":"SELECT k FROM t"}')}, "tag": "ticket"})
    # command descriptors
    cmds = ["", "   ", BASE_SQL, "  " + BASE_SQL + "\n", '{"sql":"SELECT k FROM t"}', '{"sql":"SELECT k FROM t","mode":"force"}',
            '{"sql":"SELECT k FROM t","mode":"off"}', '{"sql":"SELECT k FROM t","mode":"bogus"}', '{"sql":"  ","mode":"auto"}', '{"sql":42}',
            '{"mode":"auto"}', '{"sql":"SELECT k FROM t","sql":"SELECT s FROM t"}', '{"sql":"SELECT k FROM t","x":1}', '{"sql":"SELECT k FROM t"',
            ' {"sql":" SELECT k FROM t ","mode":"yes"} ', '{"sql":"SELECT k FROM t","mode":null}', "{}", "{", "[1]"]
    for c in cmds:
        cases.append({"op": "descriptor", "cluster": "single", "node": 0, "cmd": c, "tag": "cmd"})
    cases.append({"op": "descriptor", "cluster": "single", "node": 0, "cmd": {"bytes": [0xff, 0x41]}, "tag": "cmd"})
    cases.append({"op": "descriptor", "cluster": "single", "node": 0, "cmd": {"prefix": BASE_SQL + " /*", "pad": CAP, "byte": 120, "suffix": "*/"}, "tag": "cmd"})
    for cl in ("failpeer", "blockpeer"):
        cases.append({"op": "descriptor", "cluster": cl, "node": 1, "cmd": BASE_SQL, "tag": "cmd"})
    for path in (["t"], ["big"], ["nosuch"]):
        cases.append({"op": "descriptor", "cluster": "single", "node": 0, "path": path, "tag": "path"})
    return cases


# ----------------------------------------------------------------------------------------------
# observations -> Coq terms
# ----------------------------------------------------------------------------------------------
def spec_bytes(spec):
    """bytes of a harness byte-spec (string | {"bytes"} | {"prefix","pad","byte","suffix"}), or None when too long to build"""
    if isinstance(spec, str):
        return spec.encode()
    if "bytes" in spec:
        return bytes(spec["bytes"])
    if spec.get("pad", 0) > 5000:
        return None
    return spec.get("prefix", "").encode() + bytes([spec.get("byte", 32)]) * spec.get("pad", 0) + spec.get("suffix", "").encode()


def spec_len(spec):
    if isinstance(spec, str):
        return len(spec.encode())
    if "bytes" in spec:
        return len(spec["bytes"])
    return len(spec.get("prefix", "").encode()) + spec.get("pad", 0) + len(spec.get("suffix", "").encode())


def esc_len_term(spec):
    """Coq term for esc_len of the statement, run-length aware (justified by C34.Proofs.esc_len_app / esc_len_repeat)"""
    if isinstance(spec, str) or "bytes" in spec:
        return "(esc_len %s)" % fd.bl(spec_bytes(spec))
    return "(esc_len %s + %d * esc_len_byte %d + esc_len %s)" % (fd.bl(spec.get("prefix", "")), spec.get("pad", 0), spec.get("byte", 32),
                                                               fd.bl(spec.get("suffix", "")))


def code_term(code):
    return code if code in ("InvalidArgument", "NotFound", "Unavailable", "Unimplemented", "Internal") else None


def flight_obs_term(f, out):
    """Observed Flight sequence -> Coq flight_response term (None when it cannot be expressed) and reason-text check"""
    info, get = f.get("info") or {}, f.get("get")
    if not info.get("ok"):
        c = code_term(info.get("code"))
        return ("(FlightErr %s)" % c if c else None), True
    if get is None:
        return None, True
    if not get.get("ok"):
        c = code_term(get.get("code"))
        return ("(FlightErr %s)" % c if c else None), True
    tr = get.get("trailer") or {}
    r = tr.get("skipped_reason")
    if r is None:
        rt, ok = "None", True
    elif r == "distributed=0 requested":
        rt, ok = "(Some ROff)", True
    elif r == "only one cluster member is up":
        rt, ok = "(Some ROneMember)", True
    else:
        rt, ok = "(Some RUnplannable)", (out.get("plan_error") == r)
    return "(FlightRows %s %s)" % (blit(tr.get("distributed") is True), rt), ok


def mode_word(f):
    return "auto" if f.get("mode") is None else f["mode"]


def http_for_mode(o, word):
    want = MODE_OF_WORD.get(word)
    for h in o["http"]:
        vals = [p.split("=", 1)[1] for p in h["qs"].split("&") if p.startswith("distributed=")]
        m = MODE_OF_WORD.get(vals[0]) if vals else "Auto"
        if m == want:
            return h
    return None


def units_of(cases, outs):
    units = []
    for ci, (c, o) in enumerate(zip(cases, outs)):
        if c["op"] == "stmt":
            if "flight" not in o:
                units.append({"kind": "broken", "case": c, "out": o})
                continue
            local = o["local"]
            e_local = fd.run_term_of_local(local)
            fh = http_for_mode(o, "1")
            e_dist = fd.run_term_of_response(fh) if fh is not None else None
            stable = o.get("members") == o.get("members_after")
            for f in o["flight"]:
                h = http_for_mode(o, mode_word(f))
                ed = e_dist
                if ed is None:       # no force request over HTTP in this case: the force ticket itself reveals the run
                    ed = "RunOk"
                units.append({"kind": "door", "case": c, "ci": ci, "f": f, "h": h, "out": o, "local": local,
                              "env": fd.env_term(o, e_local, ed), "stable": stable})
        elif c["op"] == "ticket":
            units.append({"kind": "ticket", "case": c, "ci": ci, "out": o})
        elif c["op"] == "descriptor" and c["tag"] == "cmd":
            units.append({"kind": "cmd", "case": c, "ci": ci, "out": o})
        elif c["op"] == "descriptor":
            units.append({"kind": "path", "case": c, "ci": ci, "out": o})
    return units


def door_term(u):
    """[impl == model; spec; known-class flag agrees]"""
    f, h, o, local, c = u["f"], u["h"], u["out"], u["local"], u["case"]
    word = mode_word(f)
    m = MODE_OF_WORD.get(word)
    obs, _ = flight_obs_term(f, o)
    if obs is None or m is None or h is None or "status" not in h:
        return "[false; false; false]"
    hobs, _ = fd.response_term(h, o)
    info, get = f.get("info") or {}, f.get("get") or {}
    sql = c["sql"]
    if not info.get("ok") and spec_len(sql) <= CAP:
        # GetFlightInfo refused: readiness, then planning (the engine's own planning error, by kind)
        plan = "(Some %s)" % fd.KINDS.get(local.get("kind"), "KOther") if "err" in local else "None"
        return ("(let e := %s in let fo := %s in let ho := %s in "
                "[match flight_plan_phase e %s with Some c => flight_response_eqb fo (FlightErr c) | None => false end; "
                " match view_http ho with Some v => view_eqb (view_coarse v) (view_coarse (view_flight fo)) | None => false end; true])"
                % (u["env"], obs, hobs, plan))
    if spec_len(sql) > CAP:
        # over both caps: POST /sql says 413 before anything runs, parse_command refuses the descriptor
        return "[flight_response_eqb %s (FlightErr InvalidArgument); %s; true]" % (obs, blit(h.get("status") == 413 and not info.get("ok")))
    mode_b = fd.bl(word)
    # minting: the issued ticket is ticket_bytes(statement as the server trims it, mode as given)
    sb = spec_bytes(sql)
    mint = "true"
    if info.get("ok"):
        tl = "(ticket_len_of %s (esc_len %s))" % (esc_len_term(trimmed_spec(sql)), mode_b)
        mint = "(%s =? %s)" % (zlit(info.get("ticket_len") or -1), tl)
        if info.get("ticket") is not None and sb is not None:
            mint += " && beq %s (ticket_bytes %s %s)" % (fd.bl(info["ticket"]), fd.bl(sb.decode().strip()), mode_b)
    known = "(known_ticket_over_cap_len %s %s %s)" % (zlit(spec_len(trimmed_spec(sql))), esc_len_term(trimmed_spec(sql)), mode_b)
    # the stream
    stream_eq, stream_spec = "true", "true"
    if get.get("ok"):
        msgs = get.get("msg_rows") or []
        tr = get.get("trailer") or {}
        meta = [x - 0 for x in (get.get("meta_at") or [])]
        stream_spec = "stream_spec_ok %s %s %s %s" % (zlit(get["bag"]["n"]), vlib.zlist(msgs), vlib.zlist(meta), zlit(tr.get("rows", -1)))
        hb = (h.get("decoded") or {}).get("batch_rows")
        if h.get("status") == 200 and hb is not None:
            model = "(map (@zlen unit) (stream_msgs MAX_ENCODE_ROWS (%s : list (list unit))))" % ("[" + "; ".join("repeat tt (Z.to_nat %d)" % n for n in hb) + "]")
            stream_eq = "list_eqb Z.eqb (isort Z.leb %s) (isort Z.leb %s)" % (vlib.zlist(msgs), model)
    return ("(let e := %s in let fo := %s in let ho := %s in "
            "[flight_response_eqb fo (if %s then FlightErr InvalidArgument else flight_do_get %s e) && %s && %s; "
            " (if %s then true else match view_http ho with Some v => view_eqb (view_coarse v) (view_coarse (view_flight fo)) | None => false end) && %s; "
            " true])"
            % (u["env"], obs, hobs, known, m, mint, stream_eq, known, stream_spec))


def trimmed_spec(sql):
    if isinstance(sql, str):
        return sql.strip()
    return sql


PRELUDE = """
Definition known_ticket_over_cap_len (sql_len esc_sql : Z) (mode : bytes) : bool :=
  (sql_len <=? MAX_COMMAND_BYTES) && (MAX_TICKET_BYTES <? ticket_len_of esc_sql (esc_len mode)).
"""


def door_python_checks(u):
    """The door-against-door comparisons that need the decoded bodies: same schema, same rows, same decision, trailer."""
    f, h, o, local = u["f"], u["h"], u["out"], u["local"]
    info, get = f.get("info") or {}, f.get("get") or {}
    if h is None:
        return False, "no HTTP request of the same mode"
    if get.get("ok"):
        if h.get("status") != 200:
            return False, "Flight answered, HTTP did not"
        hd, d = h["headers"], h.get("decoded") or {}
        tr = get.get("trailer") or {}
        if d.get("schema") != get.get("schema"):
            return False, "DoGet schema differs from the HTTP Arrow schema"
        if get.get("schema") != info.get("schema") or (f.get("get_schema") or {}).get("schema") != info.get("schema"):
            return False, "GetFlightInfo / GetSchema schema differs from the streamed schema"
        counts = ("DoGet delivered %d rows in messages %s (its trailer says %s); POST /sql?%s delivered %s rows in batches %s (x-qe-rows %s); "
                  "the engine run in-process returns %s rows" % (get["bag"]["n"], get.get("msg_rows"), tr.get("rows"), h.get("qs"),
                                                               d.get("bag", {}).get("n"), d.get("batch_rows"), hd.get("x-qe-rows"),
                                                               local.get("row_count") if local.get("ok") else "an error"))
        if d.get("bag", {}).get("n") != get["bag"]["n"]:
            return False, "row COUNT differs between the doors: " + counts
        if tr.get("rows") != get["bag"]["n"]:
            return False, "the metadata trailer does not match the rows streamed: " + counts
        if d.get("bag", {}).get("hash") != get["bag"]["hash"]:
            return False, "same number of rows but different rows between the doors: " + counts
        if local.get("ok") and (get["bag"]["hash"] != local["bag"]["hash"] or get.get("schema") != local["schema"]):
            return False, "rows/schema differ from the engine's own answer: " + counts
        if (tr.get("distributed") is True) != (hd.get("x-qe-distributed") == "true"):
            return False, "distribution decision differs"
        if fd.clean_header(tr.get("skipped_reason") or "") != (hd.get("x-qe-distributed-skipped") or "").strip():
            return False, "fallback reason differs"
        if str(tr.get("rows")) != hd.get("x-qe-rows") or tr.get("rows") != get["bag"]["n"]:
            return False, "trailer rows differ from the row count"
        if tr.get("distributed") and str(tr.get("shards")) != hd.get("x-qe-shards"):
            return False, "shard count differs"
        if get.get("first_kind") != "schema" or get.get("n_schema_msgs") != 1 or get.get("last_kind") != "batch":
            return False, "stream is not schema, batches.., trailer"
        if info.get("n_endpoints") != 1 or info.get("n_locations") != 0:
            return False, "FlightInfo is not one endpoint without locations"
        return True, ""
    # Flight refused / failed: HTTP must not have answered either
    if h.get("status") == 200:
        return False, "HTTP answered, Flight did not"
    return True, ""


def classify_door(u):
    """known class of the INPUT: a statement whose minted ticket exceeds the ticket cap (computed from its length and escapes)"""
    sql = trimmed_spec(u["case"]["sql"])
    n = spec_len(sql)
    if isinstance(sql, str) or "bytes" in sql:
        esc = py_esc_len(spec_bytes(sql))
    else:
        esc = py_esc_len(sql.get("prefix", "").encode()) + sql.get("pad", 0) * py_esc_len(bytes([sql.get("byte", 32)])) + py_esc_len(sql.get("suffix", "").encode())
    word = mode_word(u["f"])
    if n <= CAP and 26 + esc + py_esc_len(word.encode()) > CAP:
        return "ticket-over-cap"
    return None


def py_esc_len(b):
    n = 0
    for c in b:
        n += 2 if c in (34, 92, 8, 12, 10, 13, 9) else 6 if c < 32 else 1
    return n


def ticket_term(u):
    c, o = u["case"], u["out"]
    spec = c["ticket"]
    n = spec_len(spec)
    b = spec_bytes(spec)
    if b is None:
        parsed = "(Some (ticket_json %s %s))" % (fd.bl(BASE_SQL + " /*x*/"), fd.bl("auto")) if n <= CAP else "None"
    else:
        parsed = fd.parsed_term(b)
    if o.get("ok"):
        tr = o.get("trailer") or {}
        obs = "accepted"
    else:
        msg = o.get("message") or ""
        obs = next((v for p, v in REFUSALS if msg.startswith(p)), None)
        if obs is None:
            obs = "accepted"          # validation passed; the statement itself failed (or the node is not ready)
        if o.get("code") != "InvalidArgument" and obs != "accepted":
            return "[false; false; false]"
    obs_t = {"accepted": "true"}.get(obs)
    model = "(ticket_validate %s %s)" % (zlit(n), parsed)
    if obs == "accepted":
        eq = "is_accept %s" % model
    else:
        eq = "verdict_eqb %s %s" % (obs, model)
    # spec: malformed / oversized / unknown-version / unknown-mode tickets are refused
    spec_ok = "(if is_accept %s then true else %s)" % (model, blit(obs != "accepted"))
    return "[%s; %s; true]" % (eq, spec_ok)


def ticket_python_checks(u):
    """An accepted ticket runs exactly its statement in exactly its mode."""
    c, o = u["case"], u["out"]
    b = spec_bytes(c["ticket"])
    if not o.get("ok") or b is None:
        return True
    p = fd.strict_json(b)
    if p is None:
        return False
    v = p[1]
    sql = mode = None
    if isinstance(v, tuple) and v[0] == "obj":
        d = dict(v[1])
        sql, mode = d.get("sql"), d.get("mode", "auto")
    elif isinstance(v, list) and len(v) >= 2:
        sql, mode = v[1], (v[2] if len(v) > 2 else "auto")
    tr = o.get("trailer") or {}
    want = MODE_OF_WORD.get(mode)
    if want == "Off" and tr.get("skipped_reason") != "distributed=0 requested":
        return False
    if want == "Force" and tr.get("distributed") is not True:
        return False
    expect = {BASE_SQL: 8, "SELECT s FROM t WHERE k < 3": 2, "SELECT COUNT(*) AS c FROM big": 1}.get((sql or "").strip())
    return expect is None or o["bag"]["n"] == expect


def cmd_term(u):
    c, o = u["case"], u["out"]
    spec = c["cmd"]
    n = spec_len(spec)
    b = spec_bytes(spec)
    info = o.get("info") or {}
    if b is None:
        utf8, text, parsed = True, b"x", "None"
    else:
        try:
            text = b.decode("utf-8").strip().encode()
            utf8 = True
        except UnicodeDecodeError:
            text, utf8 = b"", False
        parsed = fd.parsed_term(text) if text[:1] == b"{" else "None"
    refused = (not info.get("ok")) and any((info.get("message") or "").startswith(p) for p in CMD_REFUSALS)
    if info.get("ok") and info.get("ticket"):
        t = json.loads(info["ticket"])
        obs = "(CmdOk %s %s)" % (fd.bl(t["sql"]), fd.bl(t["mode"]))
    elif refused:
        obs = "CmdRefused"
    else:
        # the command was accepted and something later (readiness, planning) failed: only acceptance is observable
        model = "(parse_command %s %s %s %s trim_ascii)" % (zlit(n), blit(utf8), fd.bl(text), parsed)
        return "[match %s with CmdOk _ _ => true | CmdRefused => false end; true; true]" % model
    model = "(parse_command %s %s %s %s trim_ascii)" % (zlit(n), blit(utf8), fd.bl(text), parsed)
    code_ok = blit(info.get("ok") or info.get("code") == "InvalidArgument")
    return "[cmd_verdict_eqb %s %s; %s; true]" % (obs, model, code_ok)


def evaluate(ctx, cases):
    outs = vlib.run_harness("c34", cases, timeout=3000)
    units = units_of(cases, outs)
    terms = []
    for u in units:
        if u["kind"] == "door":
            terms.append(door_term(u))
        elif u["kind"] == "ticket":
            terms.append(ticket_term(u))
        elif u["kind"] == "cmd":
            terms.append(cmd_term(u))
        else:
            terms.append("[true; true; true]")
    vals = vlib.coq_eval_list(REQ, PRELUDE, terms, "c34", shard=140)
    eq, ok, why = [], [], []
    for u, v in zip(units, vals):
        e, k, w = bool(v[0]), bool(v[1]) and bool(v[2]), ""
        if u["kind"] == "door":
            if not u["stable"]:
                e, k = True, True
            else:
                pk, w = door_python_checks(u)
                _, text_ok = flight_obs_term(u["f"], u["out"])
                k = k and pk and text_ok
        elif u["kind"] == "ticket":
            k = k and ticket_python_checks(u)
        elif u["kind"] == "path":
            o, c = u["out"], u["case"]
            gs = o.get("get_schema") or {}
            want = {"t": ["k", "s", "x", "d", "b"], "big": ["id", "g", "v", "s"]}.get(c["path"][0])
            k = (gs.get("ok") and gs["schema"]["cols"] == want) if want else gs.get("code") == "NotFound"
            k = bool(k) and (o.get("info") or {}).get("code") == "InvalidArgument"
            e = k
        elif u["kind"] == "broken":
            e, k = False, False
        eq.append(e)
        ok.append(k)
        why.append(w)
    return outs, units, eq, ok, why


def classify(u):
    return classify_door(u) if u.get("kind") == "door" else None


def run(ctx):
    proved = ctx.prove()
    audit_ok, findings = fd.source_audit()
    ctx.cov["source_audit"] = {"ok": audit_ok, "findings": findings,
                               "what": "server.rs sql() and flight.rs do_get each call execute_statement exactly once and run no SQL otherwise"}
    if not audit_ok:
        ctx.violation({"kind": "source-audit: the two front doors are no longer wrappers around one execute_statement",
                       "findings": findings}, found_input=False, tag="source-audit")
    cases = build_cases(ctx)
    outs, units, eq, ok, why = evaluate(ctx, cases)
    ctx.cov["evaluations"] = len(units)
    doors = [u for u in units if u["kind"] == "door"]
    dist = {"door_comparisons": len(doors), "tickets": sum(1 for u in units if u["kind"] == "ticket"),
            "commands": sum(1 for u in units if u["kind"] == "cmd"), "flight_answers": 0, "flight_errors": 0, "distributed": 0, "local_with_reason": 0,
            "rows_over_4096": 0, "resliced_streams": 0, "single_batches_over_8192_rows": 0, "largest_single_batch": 0, "empty_results": 0, "tickets_accepted": 0, "tickets_refused": {},
            "clusters": {}, "unstable_membership_skipped": 0, "known_class_units": 0, "codes": {}}
    seen = set()
    for u in doors:
        g = (u["f"].get("get") or {})
        cl = u["case"]["cluster"]
        dist["clusters"][cl] = dist["clusters"].get(cl, 0) + 1
        dist["unstable_membership_skipped"] += 0 if u["stable"] else 1
        if g.get("ok"):
            dist["flight_answers"] += 1
            tr = g.get("trailer") or {}
            dist["distributed"] += 1 if tr.get("distributed") else 0
            dist["local_with_reason"] += 1 if tr.get("skipped_reason") else 0
            dist["rows_over_4096"] += 1 if g["bag"]["n"] > 4096 else 0
            dist["empty_results"] += 1 if g["bag"]["n"] == 0 else 0
            hb = ((u["h"] or {}).get("decoded") or {}).get("batch_rows") or []
            dist["resliced_streams"] += 1 if any(b > 4096 for b in hb) else 0
            dist["single_batches_over_8192_rows"] += 1 if any(b > 8192 for b in hb) else 0
            dist["largest_single_batch"] = max([dist["largest_single_batch"]] + hb)
        else:
            dist["flight_errors"] += 1
            code = g.get("code") or (u["f"].get("info") or {}).get("code")
            dist["codes"][code] = dist["codes"].get(code, 0) + 1
        if classify(u):
            dist["known_class_units"] += 1
        sql = u["case"]["sql"]
        seen.add((cl, u["case"]["node"], sql if isinstance(sql, str) else json.dumps(sql), mode_word(u["f"])))
    for u in units:
        if u["kind"] == "ticket":
            o = u["out"]
            if o.get("ok"):
                dist["tickets_accepted"] += 1
            else:
                m = (o.get("message") or "")[:24]
                key = next((v for p, v in REFUSALS if m.startswith(p)), "accepted-then-" + str(o.get("code")))
                dist["tickets_refused"][key] = dist["tickets_refused"].get(key, 0) + 1
            seen.add(("ticket", json.dumps(u["case"]["ticket"])[:200]))
    ctx.cov["distinct_nontrivial"] = len(seen)
    ctx.cov["input_distribution"] = dist
    for u in doors[:2]:
        ctx.sample({"cluster": u["case"]["cluster"], "sql": u["case"]["sql"], "mode": mode_word(u["f"]),
                    "flight": {k: v for k, v in (u["f"].get("get") or {}).items() if k != "bag"}, "ticket": (u["f"].get("info") or {}).get("ticket"),
                    "http_headers": (u["h"] or {}).get("headers")})
    for u in [x for x in units if x["kind"] == "ticket"][:2]:
        ctx.sample({"ticket": bytes(u["case"]["ticket"].get("bytes", [])).decode("latin1"), "code": u["out"].get("code"), "message": u["out"].get("message"),
                    "accepted": u["out"].get("ok", False)})
    slim = [{"i": i, "kind": u["kind"], "case": u["case"] if u["kind"] != "ticket" or "bytes" not in u["case"]["ticket"] or len(u["case"]["ticket"]["bytes"]) < 400
             else dict(u["case"], ticket="(long)"), "mode": mode_word(u["f"]) if u["kind"] == "door" else None, "env": u.get("env"),
             "statement": (u["case"].get("sql") if isinstance(u["case"].get("sql"), str) else None) if u["kind"] == "door" else None,
             "verdict": why[i]} for i, u in enumerate(units)]

    def impl_of(u):
        if u["kind"] == "door":
            f = u["f"]
            return {"flight": {"info": f.get("info"), "get_schema": f.get("get_schema"), "get": {k: v for k, v in (f.get("get") or {}).items() if k != "bag"},
                               "bag": {k: v for k, v in ((f.get("get") or {}).get("bag") or {}).items() if k != "rows"}},
                    "http": {k: v for k, v in (u["h"] or {}).items() if k != "decoded"},
                    "http_decoded": {k: (v if k != "bag" else {kk: vv for kk, vv in v.items() if kk != "rows"}) for k, v in ((u["h"] or {}).get("decoded") or {}).items()},
                    "local": {k: v for k, v in u["local"].items() if k not in ("bag", "csv_bag", "json_bag")}, "members": u["out"].get("members"),
                    "plannable": u["out"].get("plannable")}
        return {k: v for k, v in u["out"].items() if k != "bag"}
    ctx.judge(slim, eq, ok, classify=lambda s: classify(units[s["i"]]), impl_outs=[impl_of(u) for u in units])
    if not proved and not ctx.violations:
        ctx.proof_broken_violation(f"{len(units)} door comparisons / tickets / commands against real nodes, none violates the executable spec")
    return ctx.finish(
        rule="REAL nodes spawned once per run (single, 3-node, 2-node, dead-peer, failed-load, still-loading, peer with another copy of `big`); "
             "seeded statements (rows, >4096 rows incl. 4096/4097/10000, results that arrive as ONE batch of 8192..20000 rows (ORDER BY / GROUP BY "
             "output over a 20000-row table: more than two 4096-row messages per batch), empty, mergeable and unmergeable aggregates, no base table, errors, "
             "statements that need JSON escaping, statements around the 1 MiB caps) x modes (raw command, auto, force and local spellings incl. "
             "`off`) through POST /sql?format=arrow AND GetFlightInfo+DoGet+GetSchema; tampered tickets (truncation, version, garbage, duplicate "
             "keys, positional form, type confusion, extra/missing fields, white space, byte flips, trailing bytes, sizes around the cap); "
             "command descriptors. One evaluation = one Flight-vs-HTTP comparison, one ticket or one command; non-trivial = distinct "
             "(cluster, node, statement, mode) or distinct ticket",
        assumptions=["serde_json's reader is external: tickets reach ticket_validate as (length, parsed value); the check parses with Python's json "
                     "in strict mode (duplicates kept, NaN/Infinity and lone surrogates refused) on generators that avoid the known dialect gaps",
                     "engine batch boundaries are taken from the POST /sql?format=arrow response of the same mode; the modelled stream is compared "
                     "with the DoGet message sizes as a multiset (batch order may vary between two executions)",
                     "both doors call one execute_statement: audited from source each run (regex over server.rs / flight.rs with an allowlist: "
                     "physical_plan for the schema only), not proved",
                     "timeouts, TLS, concurrent requests, gRPC message-size limits and shutdown are out of scope"])


def replay(ctx, obj):
    c = obj.get("case") or obj.get("first_differing_case")
    case = c["case"]
    outs, units, eq, ok, why = evaluate(ctx, [fd.setup_case([case["cluster"]]), case])
    bad = 0
    for u, e, k, w in zip(units, eq, ok, why):
        print(u["kind"], "statement:", u["case"].get("sql") if u["kind"] == "door" else "-", "mode:", mode_word(u["f"]) if u["kind"] == "door" else "-",
              "impl_equals_model:", e, "spec_ok:", k, w)
        bad += 0 if (e and k) else 1
    return 1 if bad else 0
