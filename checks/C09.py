"""C09 — a distributed answer equals the single-node answer. Theorems: coq/theories/Props/C09.v.
Correspondence: the REAL execute_any_distributed with an in-process FragmentTransport (every participant its own
ExecutionContext over the same Parquet files) vs ctx.sql on one node vs the Gallina reference (Sql/Query.v), for
generated statements, cluster sizes 1..8 (more nodes than splits, zero-row tables, multi-file / multi-row-group)."""
import vlib, sqlq, relcheck, distq
from vlib import zlit, zlist

CLASSES = ["topn-keep-overflow", "single-local-empty", "shard-ndv-unique"]
REQ = "From QV Require Import Sql.Query C09.Model."
U64 = 2 ** 64


def gen_group(rng, quick):
    ttypes = rng.choice([["i64", "i64", "str"], ["i64", "i64", "i64"], ["i64", "f64", "str"], ["i64", "str", "i64", "i64"]])
    nrows = rng.choice([0, 1, 2, 4, 7, 11, 16] if quick else [0, 1, 2, 4, 7, 11, 16, 30, 60])
    t = distq.gen_parquet_table(rng, "t", ttypes, nrows=nrows, null_p=rng.choice([0.0, 0.25, 0.25]))
    u = distq.gen_parquet_table(rng, "u", rng.choice([["i64", "str"], ["i64", "i64"]]), nrows=rng.choice([0, 1, 3, 5]))
    tables = [t, u]
    queries = []
    if rng.random() < 0.3:
        # sparse duplicate keys: a NULL-free integer column whose value RANGE reaches a shard's row count although its values
        # repeat (0 / 1000 alternating), grouped together with a second column: the shape in which a shard-level distinct-value
        # estimate makes the key look unique (repaired by 5300ced; re-introduced by seeded change seeded/C09)
        n = rng.choice([6, 8, 12, 16])
        ttypes = rng.choice([["i64", "i64", "str"], ["i64", "i64", "i64"]])
        hi = rng.choice([1000, 50, 7])
        rows = [[(i % 2) * hi, i % rng.choice([3, 5])] + [distq.relgen.gen_value(rng, ty, 0.2) for ty in ttypes[2:]] for i in range(n)]
        t = dict(t, types=ttypes, rows=rows)
        t["parquet"] = {"files": rng.choice([[], [n // 2], [n // 3, n // 3]]), "row_group": rng.choice([1, 2, 3, 100])}
        tables = [t, u]
        for keys in ([0, 1], [1, 0], [0, 1, 2]):
            q = ("agg", ("table", 0, "t", len(ttypes)), [distq.col(k) for k in keys], [("ACountStar", distq.lit(1)), ("ASum", distq.col(1))])
            queries.append({"q": q, "kind": "agg-sparse-keys", "sql": distq.flat_sql(q)})
    for _ in range(6):
        kind, q = distq.gen_statement(rng, tables)
        queries.append({"q": q, "kind": kind, "sql": distq.flat_sql(q)})
    # a nested rendering (derived tables) of an aggregate over a filter, and a huge LIMIT now and then
    if rng.random() < 0.5:
        src = ("filter", ("table", 0, "t", len(ttypes)), distq.relgen.gen_pred(rng, ttypes, depth=0))
        q = ("agg", src, [distq.col(0)], distq.gen_aggs(rng, ttypes))
        queries.append({"q": q, "kind": "nested", "sql": sqlq.to_sql(q)})
    if rng.random() < 0.25:
        lim, off = rng.choice([(U64 - 1, 1), (U64 - 1, 0), (2 ** 63, 2 ** 63), (U64 - 2, 1)])
        q = ("limit", ("sort", ("project", ("table", 0, "t", len(ttypes)), [distq.col(0)]), [(distq.col(0), False, False)]), off, lim)
        queries.append({"q": q, "kind": "huge-limit", "sql": distq.flat_sql(q)})
    return {"tables": tables, "queries": queries}


def keystats(g, x, plan):
    """statistics of the GROUP BY columns of the scattered table, as storage/parquet.rs computes them"""
    q = x["q"]
    body, _, _, _ = distq._order_limit(q)
    if body[0] == "filter" and body[1][0] == "agg":
        body = body[1]
    if body[0] != "agg":
        return []
    src = body[1]
    while src[0] == "filter":
        src = src[1]
    out = []
    for k in body[2]:
        if k[0] != "col":
            return []
        i = k[1]
        if src[0] == "join":
            wl = src[2][3]
            tb, j = (src[2], i) if i < wl else (src[3], i - wl)
        else:
            tb, j = src, i
        t = g["tables"][tb[1]]
        vals = [r[j] for r in t["rows"]]
        nn = [v for v in vals if v is not None]
        isint = t["types"][j] in ("i64", "i32", "date") and tb[2] == plan.get("table")
        if isint and nn:
            out.append((True, len(vals) - len(nn), len(nn), min(nn), max(nn)))
        else:
            out.append((False, len(vals) - len(nn), len(nn), 0, 0))
    return out


def class_term(g, x, r, d, ref):
    """Coq term deciding, from the input's shape, which recorded classes the case (statement, cluster size) is in"""
    q = x["q"]
    plan = r["plan"]
    lim, off = 0, 0
    if q[0] == "limit":
        off, lim = q[2], (q[3] if q[3] is not None else 0)
    shape = plan.get("shape")
    # plan_topn is reached by a statement without aggregate / GROUP BY / DISTINCT that orders or limits (the planner
    # itself may have panicked on the addition, so the statement's own shape decides)
    body = distq._order_limit(q)[0]
    topn = shape == "top_n" or (q[0] == "limit" and body[0] == "project")
    a = d.get("assign") or {}
    nodes, rows_active = "[]", "[]"
    if isinstance(a, dict) and "splits" in a:
        # partial answer of a shard has no batch at all <=> the statement's relation before ORDER BY / LIMIT is empty
        pre_empty = (len(ref["sql_aux"]) == 0) if distq.aux_query(distq.coq_safe(q)) is not None else (len(ref["sql"]) == 0)
        if shape in ("concat", "top_n"):
            bt = "[]" if pre_empty else "[[0]]"
            nodes = "[" + "; ".join(f"(mkNode Z {'true' if s else 'false'} {k}%nat {bt})" for s, k in zip(a["self"], a["splits"])) + "]"
        else:
            nodes = "[" + "; ".join(f"(mkNode Z {'true' if s else 'false'} {k}%nat [[0]])" for s, k in zip(a["self"], a["splits"])) + "]"
        rows_active = zlist([rw for rw, k in zip(a["rows"], a["splits"]) if k > 0])
    ks = keystats(g, x, plan) if shape == "two_phase" else []
    kst = "[" + "; ".join(f"(mkKeyStat {'true' if i else 'false'} {zlit(n)} {zlit(nn)} {zlit(mn)} {zlit(mx)})" for i, n, nn, mn, mx in ks) + "]"
    return (f"[{'known_keep_overflow ' + zlit(lim) + ' ' + zlit(off) if topn else 'false'}; "
            # no active node: the initiator answers over an empty shard; a rowless plain SELECT may come back without a batch
            f"match ({nodes} : list (node Z)) with [] => false | ns => known_local_empty ({'[]' if shape in ('concat', 'top_n') else '[[]]'} : list (list Z)) ns end; "
            f"known_shard_ndv {kst} {rows_active}]")


def evaluate(ctx, groups, nodes_of):
    cases, outs, ref = distq.run_dist("c09", groups, nodes_of, extra=lambda gi: {"self_at": gi % 3})
    flat, terms = [], []
    for gi, (g, o) in enumerate(zip(groups, outs)):
        res = o.get("results")
        for qi, x in enumerate(g["queries"]):
            r = res[qi] if res else {"single": {"err": str(o)[:300]}, "plan": {}, "dist": []}
            for d in r["dist"]:
                flat.append((gi, qi, x, r, d))
                terms.append(class_term(g, x, r, d, ref[(gi, qi)]))
    bits = vlib.coq_eval_list(REQ, "", terms, "c09k", shard=200)
    judged = []
    for (gi, qi, x, r, d), b in zip(flat, bits):
        rf = ref[(gi, qi)]
        q = distq.coq_safe(x["q"])
        case = {"sql": x["sql"], "kind": x["kind"], "n": d["n"], "self_at": gi % 3, "tables": cases[gi]["tables"], "group": gi,
                "shape": r["plan"].get("shape") or ("gather" if "refused" in r["plan"] else None),
                "classes": [c for c, v in zip(CLASSES, b) if v], "other_property_classes": rf["classes"], "q": x["q"]}
        single, dist = r["single"], d["res"]
        info = {"single": str(single)[:400], "dist": str(dist)[:400], "plan": r["plan"], "assign": d.get("assign")}
        if "ok" not in single:
            status = "single-node-error"      # outside the quantifier: "all statements the local engine answers"
            eq = ok = True
        elif "ok" not in dist:
            refusal = bool(d.get("refusal"))
            status = "refused" if refusal else "dist-error"
            # a refusal (NotImplemented: nothing to distribute / provider cannot be sharded) is allowed; any other error is not
            eq = ok = refusal
        else:
            status = "ran"
            srows, drows = sqlq.rows_from_impl(single["ok"]), sqlq.rows_from_impl(dist["ok"])
            ok = distq.same_answer(q, drows, srows, rf["sql_aux"]) and dist["ok"]["cols"] == single["ok"]["cols"]
            single_is_model = distq.same_answer(q, srows, rf["eng"], rf["eng_aux"])
            eq = distq.same_answer(q, drows, rf["eng"], rf["eng_aux"])
            info["single_is_model"] = single_is_model
            if not single_is_model:
                # the single node itself departs from the engine model of Sql/Query.v (a local-engine matter, judged by the
                # SQL-level properties): the two runs need not hit it in the same place, so the pair is not judged here
                status = "single-node-deviates"
                eq = ok = True
        if case["classes"] and not ok:
            eq = True     # inside a recorded class the model leaves the (failing) outcome unspecified; see DESIGN / report
        judged.append((case, eq, ok, status, info))
    return judged


def run(ctx):
    proved = ctx.prove()
    ng = ctx.n(24, 220)
    groups = [gen_group(ctx.rng, ctx.quick) for _ in range(ng)]
    def nodes_of(gi):
        return sorted({1, 2 + (gi * 5) % 7, 2 + (gi * 3 + 1) % 7}) if ctx.quick else list(range(1, 9))
    judged = evaluate(ctx, groups, nodes_of)
    cases = [j[0] for j in judged]
    ctx.cov["evaluations"] = len(judged)
    ran = [j for j in judged if j[3] == "ran"]
    ctx.cov["distinct_nontrivial"] = len({(j[0]["sql"], j[0]["n"], repr(j[0]["tables"])) for j in ran if j[0]["n"] >= 2})
    by = lambda f: {k: sum(1 for j in judged if f(j) == k) for k in sorted({f(j) for j in judged}, key=str)}
    ctx.cov["input_distribution"] = {
        "status": by(lambda j: j[3]), "shape": by(lambda j: j[0]["shape"]), "kind": by(lambda j: j[0]["kind"]),
        "cluster_sizes": sorted({j[0]["n"] for j in judged}),
        "more_nodes_than_splits": sum(1 for j in judged if isinstance(j[4]["assign"], dict) and 0 in j[4]["assign"].get("splits", [1])),
        "zero_row_sharded_table": sum(1 for j in judged if isinstance(j[4]["assign"], dict) and sum(j[4]["assign"].get("rows", [1])) == 0),
        "single_node_differs_from_reference_model": sum(1 for j in ran if j[4].get("single_is_model") is False),
        "in_recorded_class": {c: sum(1 for j in judged if c in j[0]["classes"]) for c in CLASSES}}
    ctx.cov["single_node_deviates_excluded"] = [{"sql": j[0]["sql"], "n": j[0]["n"], "single": j[4]["single"][:200], "dist": j[4]["dist"][:200]}
                                                for j in judged if j[3] == "single-node-deviates"][:6]
    ctx.cov["single_node_errors_excluded"] =[{"sql": j[0]["sql"], "err": j[4]["single"]} for j in judged if j[3] == "single-node-error"][:5]
    for j in ran[:3]:
        ctx.sample({"sql": j[0]["sql"], "n": j[0]["n"], "shape": j[0]["shape"], "dist": j[4]["dist"][:200]})
    def classify(c):
        cl = c["classes"]
        if cl and all(ctx.is_known(k) for k in cl):
            for k in cl:
                ctx.known_finding(k, ctx.known[k])
            return cl[0]
        return cl[0] if cl else None
    ctx.judge(cases, [j[1] for j in judged], [j[2] for j in judged], classify=classify, impl_outs=[j[4] for j in judged])
    if not proved and not ctx.violations:
        ctx.proof_broken_violation(f"{len(judged)} (statement, cluster size) runs, none violates the executable spec")
    return ctx.finish(
        rule="random Parquet tables t (0..16 rows quick / ..60 thorough, 1-3 files, row groups of 1..5 rows or one) and u; per group "
             "6-8 statements: projections+filters (Concat), GROUP BY / global aggregates with COUNT(*)/COUNT/SUM/AVG/MIN/MAX, HAVING, "
             "ORDER BY+LIMIT+OFFSET over aggregates (TwoPhase), ORDER BY+LIMIT+OFFSET / bare LIMIT (TopN), DISTINCT, COUNT(DISTINCT), "
             "UNION, inner/outer/cross joins with either table on either side (scattered with a replicated side, gathered, or refused), "
             "derived-table renderings, LIMIT near 2^64; each run on 3 cluster sizes (quick) / 1..8 (thorough) with the initiator at "
             "varying positions; spec = distributed answer equals the single-node answer (bag; key sequence + sub-bag under ORDER BY/"
             "LIMIT; same column names), a NotImplemented refusal is allowed, any other error is not; non-trivial = ran on >= 2 nodes, "
             "distinct by (tables, statement, cluster size)",
        assumptions=["the Gallina reference (Sql/Query.v) is the third party of the comparison; where the single-node engine itself "
                     "departs from it (other properties' recorded classes) only distributed-vs-single-node is judged",
                     "inside a recorded C09 class (decided in Coq from the input's shape: known_keep_overflow, known_local_empty, "
                     "known_shard_ndv) the model leaves the failing outcome unspecified",
                     "aggregate arguments of the theorems are nullable exact integers (C21's merge algebra); float sums are "
                     "exercised by the correspondence run only (exact binary fractions)"])


def replay(ctx, obj):
    c = obj.get("case") or obj.get("first_differing_case")
    import random
    g = {"tables": [{"name": t["name"], "types": [x[1] for x in t["cols"]], "rows": [[distq.sqlgen.cell_val(v) for v in r] for r in t["rows"]],
                     "parquet": t.get("parquet"), "batch_sizes": None} for t in c["tables"]],
         "queries": [{"q": tuple_of(c["q"]), "kind": c["kind"], "sql": c["sql"]}]}
    judged = evaluate(ctx, [g], lambda gi: [c["n"]])
    for case, eq, ok, status, info in judged:
        print(status, "impl_equals_model:", eq, "spec_ok:", ok, "classes:", case["classes"]); print(info)
    return 0 if all(j[1] and j[2] for j in judged) else 1


def tuple_of(x):
    """ASTs come back from JSON as lists"""
    if isinstance(x, list):
        if len(x) == 2 and x[0] == "q" and isinstance(x[1], str):
            from fractions import Fraction
            return ("q", Fraction(x[1]))
        if x and isinstance(x[0], str):
            return tuple(tuple_of(y) for y in x)
        return [tuple_of(y) for y in x]
    return x
