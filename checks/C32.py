"""C32 — join reordering never introduces a cross product.
Theorems: coq/theories/Props/C32.v.  Correspondence: the engine's real optimized LogicalPlan (whole pipeline and
JoinReorder alone) is rendered as a C32.Model.ptree and judged INSIDE Coq by the same `plan_ok` the theorems are about,
and by `model_shape` (the tree is a possible output of the modelled DP: every join node carries exactly the equality
predicates crossing its two sides, oriented build/probe).  The query answer is compared with the unoptimised plan and
with a reference join computed here."""
import vlib

REQ = "From QV Require Import Base.Util C32.Model."
NCOLS = 3
SIZES = [1, 1, 2, 3, 5, 8, 13, 30, 60]


# ------------------------------------------------------------------ generator
def gen_graph(rng, n, shape):
    """-> list of relation pairs forming a connected graph on 0..n-1"""
    perm = list(range(n))
    rng.shuffle(perm)
    pairs = []
    if shape == "chain":
        pairs = [(perm[i], perm[i + 1]) for i in range(n - 1)]
    elif shape == "star":
        pairs = [(perm[0], perm[i]) for i in range(1, n)]
    elif shape == "cycle":
        pairs = [(perm[i], perm[(i + 1) % n]) for i in range(n)] if n >= 3 else [(perm[0], perm[1])]
    elif shape == "clique":
        pairs = [(perm[i], perm[j]) for i in range(n) for j in range(i + 1, n)]
    elif shape == "tree":
        pairs = [(perm[rng.randrange(i)], perm[i]) for i in range(1, n)]
    else:  # "random": spanning tree + extra edges
        pairs = [(perm[rng.randrange(i)], perm[i]) for i in range(1, n)]
        allp = [(i, j) for i in range(n) for j in range(i + 1, n)]
        for p in rng.sample(allp, rng.randint(0, min(len(allp), n))):
            if p not in pairs and (p[1], p[0]) not in pairs:
                pairs.append(p)
    return pairs


def gen_case(rng, idx):
    n = rng.choice([2, 3, 3, 4, 4, 5, 5, 6, 6, 7, 7])
    shape = rng.choice(["chain", "star", "cycle", "clique", "tree", "random"])
    if shape == "clique" and n > 5:
        n = rng.choice([3, 4, 5])
    pairs = gen_graph(rng, n, shape)
    composite = rng.random() < 0.45
    conds, seen = [], set()
    for (i, j) in pairs:
        k = rng.choice([2, 2, 3]) if (composite and rng.random() < 0.5) else 1
        cols_i = rng.sample(range(NCOLS), k)
        cols_j = rng.sample(range(NCOLS), k)
        for ci, cj in zip(cols_i, cols_j):
            a, b = (i, ci), (j, cj)
            if rng.random() < 0.5:
                a, b = b, a
            key = frozenset([a, b])
            if key not in seen:
                seen.add(key)
                conds.append([list(a), list(b)])
    rng.shuffle(conds)                                   # random syntactic order of the predicates
    stats = rng.random() < 0.5                           # Parquet (footer statistics) vs memory tables
    shared = rng.random() < 0.4                          # same column names in every table (qualified in the SQL)
    alias = rng.random() < 0.3                           # relations are aliases; possibly the same base table twice
    base = list(range(n))
    if alias and rng.random() < 0.5:
        base = [rng.randrange(max(1, n - 1)) for _ in range(n)]
    sizes = {}
    dom = rng.choice([2, 3, 5, 8, 20])
    for b in sorted(set(base)):
        sizes[b] = rng.choice(SIZES)
    tables = []
    for b in sorted(set(base)):
        cn = (lambda c: f"k{c}") if shared else (lambda c, b=b: f"t{b}_k{c}")
        vn = "v" if shared else f"t{b}_v"
        rows = []
        for r in range(sizes[b]):
            row = [None if rng.random() < 0.06 else rng.randrange(dom) for _ in range(NCOLS)] + [b * 1000 + r]
            rows.append(row)
        t = {"name": f"t{b}", "cols": [[cn(c), "i64"] for c in range(NCOLS)] + [[vn, "i64"]], "rows": rows}
        if stats:
            t["parquet"] = {"files": [max(1, len(rows))], "row_group": max(1, len(rows))}
        tables.append(t)
    # local (single-relation, non-equality) predicates: they change base cardinalities, never the join graph
    locals_ = []
    if rng.random() < 0.3:
        for i in rng.sample(range(n), rng.randint(1, min(2, n))):
            locals_.append([i, rng.randrange(NCOLS), rng.choice(["<", ">=", "<>"]), rng.randrange(dom)])
    # residual predicate: a non-equality over two relations; it cannot be pushed below the joins, so a Filter stays
    # above the join tree (JoinReorder then takes its reorder_filter_with_join path on every iteration)
    residual = []
    if rng.random() < 0.2:
        i, j = rng.sample(range(n), 2)
        residual.append([[i, rng.randrange(NCOLS)], [j, rng.randrange(NCOLS)], rng.choice([">=", "<>"]), rng.randrange(dom)])
    from_order = list(range(n))
    rng.shuffle(from_order)
    syntax = rng.choice(["comma", "join", "mixed"])
    c = {"id": idx, "n": n, "shape": shape, "conds": conds, "stats": stats, "shared": shared, "alias": alias,
         "base": base, "tables": tables, "locals": locals_, "residual": residual, "from_order": from_order,
         "syntax": syntax, "dom": dom}
    c["sql"] = build_sql(rng, c)
    ref = reference(c) if idx % 2 == 0 else None         # answers are compared on every second case
    c["expected_rows"] = None if ref is None else len(ref)
    prod = 1
    for i in range(n):
        prod *= max(1, sizes[base[i]])
    c["run"] = ref is not None and idx % 2 == 0
    c["run_noopt"] = c["run"] and prod <= 5000              # the unoptimised comma join is a real cross product
    return c


def relname(c, i):
    return f"r{i}" if c["alias"] else f"t{c['base'][i]}"


def colname(c, i, col):
    b = c["base"][i]
    cn = f"k{col}" if c["shared"] else f"t{b}_k{col}"
    return f"{relname(c, i)}.{cn}"


def vname(c, i):
    b = c["base"][i]
    return f"{relname(c, i)}." + ("v" if c["shared"] else f"t{b}_v")


def build_sql(rng, c):
    n = c["n"]
    def ptxt(p):
        return f"{colname(c, *p[0])} = {colname(c, *p[1])}"
    def fromitem(i):
        return f"t{c['base'][i]} AS r{i}" if c["alias"] else f"t{c['base'][i]}"
    sel = ", ".join(f"{vname(c, i)} AS v{i}" for i in range(n))
    order = c["from_order"]
    where = [f"{colname(c, i, col)} {op} {val}" for (i, col, op, val) in c["locals"]]
    where += [f"{colname(c, *a)} + {colname(c, *b)} {op} {val}" for (a, b, op, val) in c.get("residual", [])]
    if c["syntax"] == "comma":
        frm = ", ".join(fromitem(i) for i in order)
        where = [ptxt(p) for p in c["conds"]] + where
        rng.shuffle(where)
    else:
        avail = {order[0]}
        frm = fromitem(order[0])
        pending = list(c["conds"])
        for i in order[1:]:
            avail.add(i)
            usable = [p for p in pending if p[0][0] in avail and p[1][0] in avail and (p[0][0] == i or p[1][0] == i)]
            if c["syntax"] == "mixed" and len(usable) > 1:
                usable = rng.sample(usable, rng.randint(1, len(usable)))
            if usable:
                for p in usable:
                    pending.remove(p)
                frm += f" JOIN {fromitem(i)} ON " + " AND ".join(ptxt(p) for p in usable)
            else:
                frm += f" CROSS JOIN {fromitem(i)}"
        where = [ptxt(p) for p in pending] + where
        rng.shuffle(where)
    return f"SELECT {sel} FROM {frm}" + (" WHERE " + " AND ".join(where) if where else "")


def reference(c, cap=40000):
    """multiset of (v0..v{n-1}) rows of the inner join, by definition; None when too large to be worth running"""
    n = c["n"]
    tab = {int(t["name"][1:]): t["rows"] for t in c["tables"]}
    ops = {"<": lambda a, b: a < b, ">=": lambda a, b: a >= b, "<>": lambda a, b: a != b}
    rows_of = []
    for i in range(n):
        rs = tab[c["base"][i]]
        for (li, col, op, val) in c["locals"]:
            if li == i:
                rs = [r for r in rs if r[col] is not None and ops[op](r[col], val)]
        rows_of.append(rs)
    # join in an order that keeps intermediates connected
    order, left = [0], set(range(1, n))
    while left:
        nxt = next((j for j in sorted(left) if any((p[0][0] == j and p[1][0] in order) or (p[1][0] == j and p[0][0] in order)
                                                    for p in c["conds"])), None)
        if nxt is None:
            nxt = min(left)
        order.append(nxt); left.discard(nxt)
    partial = [{order[0]: r} for r in rows_of[order[0]]]
    done = {order[0]}
    for j in order[1:]:
        done.add(j)
        ps = [p for p in c["conds"] if p[0][0] in done and p[1][0] in done and (p[0][0] == j or p[1][0] == j)]
        new = []
        for part in partial:
            for r in rows_of[j]:
                part2 = dict(part); part2[j] = r
                good = True
                for p in ps:
                    a = part2[p[0][0]][p[0][1]]; b = part2[p[1][0]][p[1][1]]
                    if a is None or b is None or a != b:
                        good = False; break
                if good:
                    new.append(part2)
                    if len(new) > cap:
                        return None
        partial = new
    for (a, b, op, val) in c.get("residual", []):
        partial = [part for part in partial
                   if part[a[0]][a[1]] is not None and part[b[0]][b[1]] is not None
                   and ops[op](part[a[0]][a[1]] + part[b[0]][b[1]], val)]
    return sorted(tuple(part[i][NCOLS] for i in range(n)) for part in partial)


# ------------------------------------------------------------------ engine plan -> Coq term
class Unparsable(Exception):
    pass


def parse_col(c, s):
    """'r3.k1' / 't3.t3_k1' / 't3_k1' -> (relation id, column id)"""
    if "." in s:
        rn, cn = s.rsplit(".", 1)
        if c["alias"]:
            if not (rn.startswith("r") and rn[1:].isdigit()):
                raise Unparsable(f"column {s}: unknown relation")
            i = int(rn[1:])
        else:
            if not (rn.startswith("t") and rn[1:].isdigit()):
                raise Unparsable(f"column {s}: unknown relation")
            i = int(rn[1:])
    else:
        cn = s
        if c["shared"] or c["alias"]:
            raise Unparsable(f"unqualified column {s} is ambiguous")
        i = int(cn.split("_")[0][1:])
    if not cn[-1].isdigit() or "k" not in cn:
        raise Unparsable(f"column {s}: not a key column")
    return (i, int(cn[-1]))


def has_join(t):
    if "join" in t:
        return True
    if "input" in t:
        return has_join(t["input"])
    if "inputs" in t:
        return any(has_join(x) for x in t["inputs"])
    return False


def leaf_rel(c, t):
    """relation id of a join-free subtree"""
    alias, scan = None, None
    cur = t
    while True:
        if "alias" in cur:
            alias = alias or cur["alias"]; cur = cur["input"]
        elif "scan" in cur:
            scan = cur["scan"]; break
        elif "input" in cur:
            cur = cur["input"]
        elif "inputs" in cur and len(cur["inputs"]) == 1:
            cur = cur["inputs"][0]
        else:
            raise Unparsable(f"leaf of unknown shape: {str(cur)[:120]}")
    if c["alias"]:
        if alias is None or not alias[1:].isdigit():
            raise Unparsable(f"leaf without alias over {scan}")
        return int(alias[1:])
    return int(scan[1:])


def eq_preds(c, conjs, local_ok=True):
    """equality conjuncts between two relations -> pred list; single-relation conjuncts are not join predicates"""
    out = []
    for cj in conjs:
        if "eq" in cj:
            a, b = parse_col(c, cj["eq"][0]), parse_col(c, cj["eq"][1])
            out.append((a, b))
        # anything else (local or residual non-equality predicates) is not a predicate of the join graph;
        # its effect is covered by the comparison of the answers
    return out


def to_ptree(c, t):
    if not has_join(t):
        return ("leaf", leaf_rel(c, t))
    if "join" in t:
        if t["join"] not in ("Inner", "Cross"):
            raise Unparsable(f"join type {t['join']}")
        on = []
        for pr in t["on"]:
            if len(pr["l"]) != len(pr["r"]) or not pr["l"]:
                raise Unparsable(f"join key {pr['text']}")
            # a packed pair (PackedJoinKeys) `a*K + b = c*K + d` stands for a = c AND b = d
            for a, b in zip(pr["l"], pr["r"]):
                on.append((parse_col(c, a), parse_col(c, b)))
        node = ("join", t["join"] == "Cross", on, to_ptree(c, t["left"]), to_ptree(c, t["right"]))
        extra = eq_preds(c, t["filter"])
        return ("filter", extra, node) if extra else node
    if "filter" in t and "input" in t:
        inner = to_ptree(c, t["input"])
        ps = eq_preds(c, t["filter"])
        return ("filter", ps, inner) if ps else inner
    if "alias" in t:
        return to_ptree(c, t["input"])
    if "inputs" in t and len(t["inputs"]) == 1:
        return to_ptree(c, t["inputs"][0])
    raise Unparsable(f"node {str(t)[:120]}")


def coq_pred(p):
    return f"(({p[0][0]},{p[0][1]}),({p[1][0]},{p[1][1]}))"


def coq_tree(t):
    if t[0] == "leaf":
        return f"(PLeaf {t[1]})"
    if t[0] == "join":
        return (f"(PJoin {'true' if t[1] else 'false'} [{'; '.join(coq_pred(p) for p in t[2])}] "
                f"{coq_tree(t[3])} {coq_tree(t[4])})")
    return f"(PFilter [{'; '.join(coq_pred(p) for p in t[1])}] {coq_tree(t[2])})"


def count_nodes(t):
    if t[0] == "leaf":
        return (0, 0, 0)
    if t[0] == "join":
        a, b = count_nodes(t[3]), count_nodes(t[4])
        return (1 + a[0] + b[0], (1 if t[1] else 0) + a[1] + b[1], a[2] + b[2])
    a = count_nodes(t[2])
    return (a[0], a[1], a[2] + 1)


def shape_sig(t):
    if t[0] == "leaf":
        return "L"
    if t[0] == "join":
        return "(" + shape_sig(t[3]) + shape_sig(t[4]) + ")"
    return "F" + shape_sig(t[2])


def case_term(c, o, notes):
    g = f"(mkGraph {c['n']} [{'; '.join(coq_pred((tuple(p[0]), tuple(p[1]))) for p in c['conds'])}] [] [])"
    parts = []
    for k in ("full", "reorder_only"):
        t = o.get(k)
        if not isinstance(t, dict) or "err" in t or "panic" in t:
            notes[k] = f"engine: {t}"
            parts.append("false; false")
            continue
        try:
            pt = to_ptree(c, t)
            notes[k + "_tree"] = pt
            parts.append(f"model_shape g {coq_tree(pt)}; plan_ok g {coq_tree(pt)}")
        except Unparsable as e:
            notes[k] = f"unparsable: {e}"
            parts.append("false; false")
    return f"(let g := {g} in [{'; '.join(parts)}; graph_connectedb g; wf_graph g])%nat"


def rows_multiset(res):
    if not isinstance(res, dict) or "ok" not in res:
        return None
    return sorted(tuple(r) for r in res["ok"]["rows"])


def run_parallel(payload, workers=8):
    """the harness is one process per chunk (planning + execution of each case is independent)"""
    from concurrent.futures import ThreadPoolExecutor
    if len(payload) < 2 * workers:
        return vlib.run_harness("c32", payload)
    vlib.run_harness("c32", [])                      # build once, outside the pool
    k = (len(payload) + workers - 1) // workers
    chunks = [payload[i:i + k] for i in range(0, len(payload), k)]
    with ThreadPoolExecutor(max_workers=workers) as ex:
        parts = list(ex.map(lambda ch: vlib.run_harness("c32", ch), chunks))
    return [o for part in parts for o in part]


def evaluate(ctx, cases):
    payload = [{"tables": c["tables"], "sql": c["sql"], "run": c["run"]} for c in cases]
    outs = run_parallel(payload)
    notes = [dict() for _ in cases]
    terms = [case_term(c, o, nt) for c, o, nt in zip(cases, outs, notes)]
    vals = vlib.coq_eval_list(REQ, "Local Open Scope nat_scope.", terms, "c32")
    eq, ok = [], []
    for c, o, v, nt in zip(cases, outs, vals, notes):
        shape_full, ok_full, shape_ro, ok_ro, conn, wf = v
        answers = True
        if c["run"]:
            ref = reference(c)
            got = rows_multiset(o.get("opt"))
            answers = got is not None and ref is not None and got == ref
            nt["rows"] = None if got is None else len(got)
            # the plan produced by JoinReorder alone, executed, must give the same answer too
            alone = rows_multiset(o.get("reorder_only_result"))
            nt["reorder_only_answer_ok"] = alone == ref
            answers = answers and alone == ref
            if c["run_noopt"]:
                # same statement through the bound, unoptimised plan
                un = rows_multiset(o.get("noopt"))
                nt["noopt_same"] = un == got
                answers = answers and un == got
            if not answers:
                nt["answer"] = {"opt": str(o.get("opt"))[:300], "expected_rows": c["expected_rows"]}
        nt["conn"], nt["wf"] = conn, wf
        nt["plan_ok"] = {"full": ok_full, "reorder_only": ok_ro}
        nt["possible_dp_output"] = {"full": shape_full, "reorder_only": shape_ro}
        # impl == model: JoinReorder on the bound plan (the modelled function) yields a possible DP output; so does the
        # whole pipeline, except in the class where later rules re-wrap a relation (see classify)
        eq.append(bool(shape_ro and (shape_full or classify(c) is not None)))
        ok.append(bool(ok_full and ok_ro and answers and conn and wf))
    return outs, notes, eq, ok


def classify(c):
    """decided by the shape of the input only.  Some relation carries a single-relation predicate: ProjectionPushdown
    then wraps that scan in a Project, the next fixpoint iteration of JoinReorder registers it under the name "project",
    its qualified columns resolve to no relation and its edges are lost (Coq: known_c).
    `local-predicate`: cross joins, same answer (C32_refuted_opaque_relation).
    `local-predicate+residual-filter`: a Filter also stays above the join tree; the unresolved ON pairs are then dropped
    by reorder_filter_with_join: lost join predicate, wrong answer (C32_refuted_lost_predicate)."""
    if c["locals"] and c.get("residual"):
        return "local-predicate+residual-filter"
    return "local-predicate" if c["locals"] else None


def run(ctx):
    proved = ctx.prove()
    n = ctx.n(300, 6000)
    cases = [gen_case(ctx.rng, i) for i in range(n)]
    if not proved:
        cases += [gen_case(ctx.rng, n + i) for i in range(1500)]
    outs, notes, eq, ok = evaluate(ctx, cases)
    ctx.cov["evaluations"] = len(cases)
    seen, shapes, dist = set(), set(), {}
    crosses = packed = filters = 0
    for c, o, nt in zip(cases, outs, notes):
        key = (c["n"], tuple(sorted(tuple(sorted((tuple(p[0]), tuple(p[1])))) for p in c["conds"])), c["stats"],
               tuple(c["from_order"]), c["syntax"])
        if c["n"] >= 3:
            seen.add(key)
        d = dist.setdefault(c["shape"], {})
        d[c["n"]] = d.get(c["n"], 0) + 1
        for k in ("full_tree", "reorder_only_tree"):
            if k in nt:
                j, x, f = count_nodes(nt[k])
                crosses += x
                filters += f
                shapes.add((c["n"], shape_sig(nt[k])))
        if "CAST(" in str(o.get("full")):
            packed += 1
    ctx.cov["distinct_nontrivial"] = len(seen)
    ctx.cov["input_distribution"] = {
        "shape_x_relations": dist,
        "with_footer_statistics(parquet)": sum(1 for c in cases if c["stats"]),
        "memory_tables(row counts only)": sum(1 for c in cases if not c["stats"]),
        "composite_key_edges": sum(1 for c in cases if len(c["conds"]) > len(set(frozenset([p[0][0], p[1][0]]) for p in c["conds"]))),
        "syntax": {s: sum(1 for c in cases if c["syntax"] == s) for s in ("comma", "join", "mixed")},
        "shared_column_names": sum(1 for c in cases if c["shared"]),
        "aliased/self-joined": sum(1 for c in cases if c["alias"]),
        "with_local_predicates(class local-predicate)": sum(1 for c in cases if c["locals"]),
        "with_residual_two_relation_predicate": sum(1 for c in cases if c.get("residual")),
        "cases of a known class whose optimized plan violates plan_ok": sum(1 for c, nt in zip(cases, notes) if classify(c) and not nt["plan_ok"]["full"]),
        "answers_compared_with_reference": sum(1 for c in cases if c["run"]),
        "answers_compared_with_unoptimised_plan": sum(1 for c in cases if c["run_noopt"]),
        "distinct_engine_tree_shapes": len(shapes),
        "cross_join_nodes_seen": crosses, "filter_nodes_with_join_predicates_seen": filters,
        "plans_with_packed_join_keys": packed}
    for c, o in list(zip(cases, outs))[:2]:
        ctx.sample({"sql": c["sql"], "conds": c["conds"], "stats": c["stats"], "full": o.get("full")})

    ctx.judge(cases, eq, ok, classify=classify, impl_outs=[{"full": o.get("full"), "reorder_only": o.get("reorder_only"), "notes": {k: v for k, v in nt.items() if not k.endswith("_tree")}}
                                        for o, nt in zip(outs, notes)])
    if not proved and not ctx.violations:
        ctx.proof_broken_violation(f"{len(cases)} generated connected join graphs, none violates plan_ok")
    return ctx.finish(
        rule="random connected join graphs of 2..7 relations (chain, star, cycle, clique, random tree, tree+extra edges), "
             "1-3 column pairs per edge, predicates in random syntactic order and orientation, random FROM order, "
             "comma / JOIN..ON / mixed syntax, unique or shared column names, optional aliases and self-joins, "
             "memory tables (row counts only) or Parquet (footer statistics), table sizes 1..60 rows; "
             "non-trivial = >= 3 relations, distinct by (predicate set, statistics, FROM order, syntax)",
        assumptions=["each column reference of a join predicate resolves to exactly one relation (the model's columns carry "
                     "their relation id; the engine resolves names through find_relations) — exercised, not proved",
                     "a packed join key `a*K+b = c*K+d` produced by PackedJoinKeys is read back as a = c AND b = d",
                     "greedy scores are above i32::MIN (a candidate with score == i32::MIN is never picked by `score > best_score`)"])


def replay(ctx, obj):
    c = obj.get("case") or obj.get("first_differing_case")
    outs, notes, eq, ok = evaluate(ctx, [c])
    print("sql:", c["sql"])
    print("full:", outs[0].get("full"))
    print("reorder_only:", outs[0].get("reorder_only"))
    print("notes:", {k: v for k, v in notes[0].items()})
    print("impl_is_possible_model_output:", eq[0], "plan_ok_and_answer:", ok[0])
    return 0 if ok[0] and eq[0] else 1
