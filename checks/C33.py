"""C33 — memory pool accounting under concurrency: theorems in coq/theories/Props/C33.v (all schedules, any number
of threads); correspondence: sequential op lists on the real MemoryPool vs C33.Model.model after every op, plus
multi-thread stress runs on real OS threads checked against the spec (the schedule is unknown, so not the model)."""
import vlib
from vlib import zlit

REQ = "From QV Require Import Base.Util C33.Model."
W = 2 ** 64
OPN = {"try_allocate": "OTry", "allocate": "OAlloc", "resize": "OResize", "drop": "ODrop"}


# ---------------- sequential cases ----------------
def gen_seq(rng):
    style = rng.choice(["tight", "tight", "tight", "roomy", "unbounded", "zero", "edge", "wrap"])
    if style == "tight":
        limit = rng.choice([10, 64, 100, 1000])
    elif style == "roomy":
        limit = rng.choice([2 ** 20, 2 ** 30, 2 ** 40])
    elif style == "unbounded":
        limit = W - 1
    elif style == "zero":
        limit = 0
    elif style == "edge":
        limit = rng.choice([W - 1, W - 2, 2 ** 63, 2 ** 63 - 1])
    else:
        limit = rng.choice([100, 2 ** 63, W - 1])

    def size():
        if style == "tight":
            return rng.choice([0, 1, rng.randint(0, limit), rng.randint(0, max(1, limit // 3)), limit, limit + 1])
        if style == "roomy":
            return rng.choice([0, rng.randint(0, limit), rng.randint(0, limit // 4), limit, limit + 1])
        if style == "unbounded":
            return rng.choice([0, rng.randint(0, 2 ** 40), rng.randint(0, 2 ** 62), 2 ** 62])
        if style == "zero":
            return rng.choice([0, 0, 1, 5])
        if style == "edge":
            return rng.choice([0, 1, 2 ** 62, 2 ** 63 - 1, rng.randint(0, 2 ** 62), limit // 2, limit // 2 + 1])
        return rng.choice([2 ** 63, 2 ** 63, W - 1, 2 ** 62, 1, 7, rng.randint(0, W - 1)])

    n = rng.choice([0, 1, 2, 3, 5, 8, 13, 21, 30, 40])
    ops, nxt, ids = [], 0, []
    for _ in range(n):
        kind = rng.choice(["try_allocate"] * 4 + ["allocate"] * (2 if style in ("wrap", "tight", "edge") else 1)
                          + ["resize"] * 3 + ["drop"] * 3)
        if kind in ("try_allocate", "allocate"):
            ops.append({"op": kind, "r": nxt, "n": size()})
            ids.append(nxt)
            nxt += 1
        else:
            r = rng.choice(ids) if ids and rng.random() < 0.9 else rng.randint(0, nxt + 2)
            if kind == "resize":
                ops.append({"op": "resize", "r": r, "n": size()})
            else:
                ops.append({"op": "drop", "r": r})
    body = len(ops)
    if rng.random() < 0.75:   # close the case by dropping everything that may still be live
        order = list(ids)
        rng.shuffle(order)
        ops += [{"op": "drop", "r": r} for r in order]
    return {"limit": limit, "ops": ops, "style": style, "body_ops": body}


def ops_term(ops):
    return "[" + "; ".join(
        f"{OPN[o['op']]} {o['r']}%nat" + ("" if o["op"] == "drop" else f" {zlit(o['n'])}") for o in ops) + "]"


def obs_term(b):
    live = "[" + "; ".join(f"({int(k)}%nat, {zlit(s)})" for k, s in b["live"]) + "]"
    return f"mkObs {'true' if b['ok'] else 'false'} {zlit(b['used'])} {live}"


def seq_term(c, o):
    if "obs" not in o or len(o["obs"]) != len(c["ops"]):
        return "[false; false]"
    impl = "[" + "; ".join(obs_term(b) for b in o["obs"]) + "]"
    return (f"(let ops := {ops_term(c['ops'])} in let impl := {impl} in "
            f"[model_eqb impl (model {zlit(c['limit'])} ops); spec_ok {zlit(c['limit'])} ops impl])")


def true_sum_wraps(c):
    """does the sum of live sizes reach 2^64 somewhere (by the ops' own arithmetic, assuming every op succeeds)?"""
    return c["style"] == "wrap"


def eval_seq(cases):
    outs = vlib.run_harness("c33", cases)
    vals = vlib.coq_eval_list(REQ, "", [seq_term(c, o) for c, o in zip(cases, outs)], "c33", shard=40)
    eq = [bool(v[0]) for v in vals]
    ok = [bool(v[1]) and o.get("final_used") == 0 and o.get("max") == c["limit"] for v, o, c in zip(vals, outs, cases)]
    return outs, eq, ok


# ---------------- stress cases ----------------
def gen_stress(rng, quick):
    k = rng.randint(2, 8)
    cond_only = rng.random() < 0.6
    limit = rng.choice([0, 50, 100, 100, 1000, 1000, 2 ** 20, W - 1])
    top = max(1, min(limit, 2 ** 20))
    scripts = []
    for _ in range(k):
        ln = rng.randint(3, 30)
        slots = rng.randint(1, 4)
        sc = []
        for _ in range(ln):
            kinds = ["try_allocate"] * 5 + ["resize"] * 3 + ["drop"] * 3 + ([] if cond_only else ["allocate"] * 2)
            kind = rng.choice(kinds)
            r = rng.randint(0, slots - 1)
            if kind == "drop":
                sc.append({"op": "drop", "r": r})
            else:
                sc.append({"op": kind, "r": r, "n": rng.choice([0, 1, rng.randint(0, top), rng.randint(0, max(1, top // 2)),
                                                                 rng.randint(0, max(1, top // 4))])})
        scripts.append(sc)
    reps = rng.choice([50, 200, 1000] if quick else [200, 1000, 3000])
    return {"limit": limit, "scripts": scripts, "reps": reps, "shrink_only": cond_only, "cond_only": cond_only}


def stress_ok(c, o):
    """spec on what a stress run lets us observe; returns (ok, reason)"""
    if "threads" not in o:
        return False, "no output: " + str(o)[:200]
    ths = o["threads"]
    if o["final_used"] != 0:
        return False, f"used = {o['final_used']} after every reservation was dropped"
    if any(t["own_sum"] != t["sizes_sum"] for t in ths):
        return False, "harness bookkeeping differs from MemoryReservation::size()"
    if o["used_before_drop"] != sum(t["own_sum"] for t in ths) % W:
        return False, f"quiescent used {o['used_before_drop']} != sum of live reservations {sum(t['own_sum'] for t in ths)}"
    if any(t["below_own"] for t in ths):
        return False, "observed used() below the observing thread's own live reservations (underflow / lost add)"
    if c["cond_only"] and any(t["over_limit"] or t["max_after_grant"] > c["limit"] for t in ths):
        return False, "used() above the limit in a run with conditional reservations only"
    return True, ""


def eval_stress(cases):
    outs = vlib.run_harness("c33", cases)
    res = [stress_ok(c, o) for c, o in zip(cases, outs)]
    return outs, res


# ---------------- driver ----------------
def run(ctx):
    proved = ctx.prove()
    nseq = ctx.n(500, 10000)
    nstress = ctx.n(50, 1000)
    if not proved:
        nseq += 3000
        nstress += 200
    seq = [gen_seq(ctx.rng) for _ in range(nseq)]
    outs, eq, ok = eval_seq(seq)
    stress = [gen_stress(ctx.rng, ctx.quick) for _ in range(nstress)]
    souts, sres = eval_stress(stress)

    ctx.cov["evaluations"] = len(seq) + len(stress)
    seen = set()
    for c in seq:
        kinds = set(o["op"] for o in c["ops"][:c["body_ops"]])
        if c["body_ops"] >= 3 and ("try_allocate" in kinds or "allocate" in kinds) and len(kinds) >= 2:
            seen.add(repr((c["limit"], [(o["op"], o["r"], o.get("n")) for o in c["ops"]])))
    contended = sum(1 for o in souts if "threads" in o and sum(t["grants"] for t in o["threads"]) > 0
                    and sum(t["refusals"] for t in o["threads"]) > 0)
    ctx.cov["distinct_nontrivial"] = len(seen) + contended
    ctx.cov["input_distribution"] = {
        "sequential_cases": len(seq), "sequential_ops_total": sum(len(c["ops"]) for c in seq),
        "max_ops": max(len(c["ops"]) for c in seq),
        "styles": {s: sum(1 for c in seq if c["style"] == s) for s in sorted(set(c["style"] for c in seq))},
        "try_granted": sum(1 for c, o in zip(seq, outs) for p, b in zip(c["ops"], o.get("obs", [])) if p["op"] == "try_allocate" and b["ok"]),
        "try_refused": sum(1 for c, o in zip(seq, outs) for p, b in zip(c["ops"], o.get("obs", [])) if p["op"] == "try_allocate" and not b["ok"]),
        "used_above_limit_after_forced_op": sum(1 for c, o in zip(seq, outs) if any(b["used"] > c["limit"] for b in o.get("obs", []))),
        "cases_with_counter_wrap_style": sum(1 for c in seq if true_sum_wraps(c)),
        "stress_runs": len(stress), "stress_threads": sorted(set(len(c["scripts"]) for c in stress)),
        "stress_conditional_only_runs": sum(1 for c in stress if c["cond_only"]),
        "stress_runs_with_grants_and_refusals": contended,
        "stress_atomic_ops_observed": sum(t["samples"] for o in souts if "threads" in o for t in o["threads"]),
        "stress_grants": sum(t["grants"] for o in souts if "threads" in o for t in o["threads"]),
        "stress_refusals": sum(t["refusals"] for o in souts if "threads" in o for t in o["threads"]),
    }
    for c, o in list(zip(seq, outs))[3:5]:
        ctx.sample({"input": c, "impl_output": o})
    if stress:
        ctx.sample({"input": {k: v for k, v in stress[0].items() if k != "scripts"} | {"threads": len(stress[0]["scripts"])},
                    "impl_output": souts[0]})

    ctx.judge(seq, eq, ok, impl_outs=outs)
    for c, o, (good, why) in zip(stress, souts, sres):
        if not good and len(ctx.violations) < 3:
            ctx.violation({"kind": "implementation-violates-spec (multi-thread stress run; schedule not reproducible, "
                                   "replay re-runs the same scripts)", "case": c, "impl_output": o, "reason": why}, found_input=True)
    if not proved and not ctx.violations:
        ctx.proof_broken_violation(f"{len(seq)} sequential op lists and {len(stress)} stress runs, none violates the spec")
    return ctx.finish(
        rule="sequential: random op lists (<=40 ops + closing drops) over limits {0, tight, 2^20..2^40, usize::MAX, around 2^63} "
             "with sizes around the limit, fresh ids, ops on absent ids, and a 'wrap' style whose forced allocations total >= 2^64; "
             "compared with the model after EVERY op (ok flag, used, live reservation sizes) and with the spec. "
             "stress: 2..8 OS threads x random scripts x reps on one pool; checked: final used = 0, quiescent used = sum of "
             "live reservations, used() never below the observer's own reservations, and (conditional-only runs) every used() "
             "sample incl. the one right after each grant <= limit. non-trivial = sequential case with >=3 body ops, an allocation "
             "and >=2 op kinds (distinct by input) + stress runs in which both grants and refusals occurred",
        assumptions=["atomic RMW operations (compare_exchange_weak, fetch_add, fetch_sub) on `used` are atomic and act on the latest "
                     "value in the location's modification order (Rust/C++11 memory model, any ordering); plain loads and the value "
                     "returned by a failed CAS are modelled as ARBITRARY values, so no assumption on load ordering is needed",
                     "each model step contains at most one atomic access; thread-local computation between two atomic accesses is "
                     "merged into the neighbouring step (local steps commute with other threads' steps)",
                     "a MemoryReservation is accessed by one method at a time (&mut self / by-value self: enforced by the borrow checker)",
                     "usize is 64 bits (the wrap modulus 2^64); the exact-sum / no-underflow / true-total-within-limit statements "
                     "assume the sum of live reservation sizes is < 2^64 (else see C33_forced_allocate_wrap)",
                     "the limit clause covers try_allocate only: allocate and a growing resize are unchecked fetch_add in the code "
                     "(C33_forced_allocate_exceeds_limit, C33_grow_resize_exceeds_limit)",
                     "stress runs observe used() through a Relaxed load after each op; interleavings actually exercised depend on the OS scheduler"])


def replay(ctx, obj):
    c = obj.get("case") or obj.get("first_differing_case")
    if "scripts" in c:
        outs, res = eval_stress([c])
        print("impl_output:", outs[0]); print("spec_ok:", res[0][0], res[0][1])
        return 0 if res[0][0] else 1
    outs, eq, ok = eval_seq([c])
    print("impl_output:", outs[0]); print("impl_equals_model:", eq[0], "spec_ok:", ok[0])
    return 0 if ok[0] and eq[0] else 1
