"""C15 — membership view: theorems in coq/theories/Props/C15.v; correspondence of the real
distributed::membership::Membership (driven op by op) vs C15.Model.trace, and the executable spec
C15.Model.spec_ok on the implementation's views. The real is_self_address is tabulated by the harness
for the whole address universe of a case and handed to the model as its `is_self` function."""
import json
import vlib
from vlib import zlit, bytes_of_str, blit, optlit

REQ = "From QV Require Import Base.Util C15.Model."

PORT, PORT2 = 7001, 7002
MSGS = ["connection refused", "HTTP 503", "temporary failure in name resolution", "", "timeout é"]
FLIGHTS = ["10.0.0.1:9001", "127.0.0.1:9001", "grpc://x:1"]


def local_ipv4():
    """A non-loopback IPv4 address bound to a local interface here, if any (rule 3 of is_self_address)."""
    out = vlib.run_harness("c15", [{"local_ips": True}])[0]
    for ip in out.get("local_ips", []):
        if "." in ip and not ip.startswith("127."):
            return ip
    return None


def universe(lip):
    """No entry needs a DNS query: IP literals parse directly, `localhost` comes from /etc/hosts
    (files before dns), and names without a port fail in to_socket_addrs before any lookup."""
    u = [f"127.0.0.1:{PORT}", f"localhost:{PORT}", f"[::1]:{PORT}",          # this node, three spellings
         f"127.0.0.1:{PORT2}", f"localhost:{PORT2}",                          # port-only difference
         f"10.0.0.1:{PORT}", f"10.0.0.2:{PORT}", f"10.0.0.3:{PORT2}", f"10.0.0.10:{PORT}",   # foreign
         f"0.0.0.0:{PORT}", "Zpeer-without-port", "peer-without-port", "é-without-port"]
    if lip:
        u += [f"{lip}:{PORT}", f"{lip}:{PORT2}"]
    return u


def gen_case(rng, uni, max_ops):
    self_addr = rng.choice([f"127.0.0.1:{PORT}"] * 5 + [f"localhost:{PORT}"] * 2 +
                           [f"10.0.0.1:{PORT}", "peer-without-port", f"127.0.0.1:{PORT2}"])
    n = rng.randint(0, max_ops)
    pool = rng.sample(uni, rng.randint(2, len(uni)))      # addresses this history talks about
    ops, last_set = [], []
    for _ in range(n):
        r = rng.random()
        if r < 0.22 or not ops:
            k = rng.choice([0, 1, 2, 2, 3, 3, 4, 5, 6])
            l = [rng.choice(pool) for _ in range(k)]
            if rng.random() < 0.5:
                l.append(rng.choice([self_addr, f"localhost:{PORT}", f"127.0.0.1:{PORT}"]))
            if l and rng.random() < 0.3:
                l.append(rng.choice(l))                   # duplicate in the discovery result
            rng.shuffle(l)
            last_set = l
            ops.append({"op": "set", "addrs": l})
        elif r < 0.34:
            l = list(last_set)                            # re-resolve the same set (maybe reordered / extended by self)
            rng.shuffle(l)
            if rng.random() < 0.3:
                l.append(self_addr)
            if l and rng.random() < 0.3:
                l.append(rng.choice(l))
            ops.append({"op": "set", "addrs": l})
        elif r < 0.44:
            ops.append({"op": "err", "msg": rng.choice(MSGS)})
        elif r < 0.72:
            a = rng.choice(last_set) if last_set and rng.random() < 0.8 else rng.choice(uni)
            ops.append({"op": "up", "addr": a, "id": rng.choice([None, None, 1, 2, 2**64 - 1]),
                        "flight": rng.choice([None, None] + FLIGHTS)})
        elif r < 0.95:
            a = rng.choice(last_set) if last_set and rng.random() < 0.8 else rng.choice(uni)
            ops.append({"op": "down", "addr": a, "msg": rng.choice(MSGS)})
        else:
            ops.append({"op": "flight", "flight": rng.choice([None] + FLIGHTS)})
    return {"self": self_addr, "self_id": rng.choice([0, 7, 2**64 - 1]), "universe": uni, "ops": ops}


class Names:
    """Every string of the shared universe gets one Coq constant in the prelude; anything else the
    implementation returns is rendered as literal bytes."""
    def __init__(self, strings):
        self.map = {}
        for s in strings:
            if s not in self.map:
                self.map[s] = f"s{len(self.map)}"

    def prelude(self):
        return "\n".join(f"Definition {n} : bytes := {bytes_of_str(s)}." for s, n in self.map.items())

    def b(self, s):
        return self.map.get(s) or bytes_of_str(s)


STATUS = {"unknown": "Unknown", "up": "Up", "down": "Down"}


def op_term(o, nm):
    k = o["op"]
    if k == "set":
        return "SetMembers [" + "; ".join(nm.b(a) for a in o["addrs"]) + "]"
    if k == "err":
        return f"ResolveError {nm.b(o['msg'])}"
    if k == "up":
        return f"RecordUp {nm.b(o['addr'])} {optlit(o['id'], zlit)} {optlit(o['flight'], nm.b)}"
    if k == "down":
        return f"RecordDown {nm.b(o['addr'])} {nm.b(o['msg'])}"
    return f"SetSelfFlight {optlit(o['flight'], nm.b)}"


def view_term(v, nm):
    ms = "; ".join(
        f"mkMember {nm.b(m['address'])} {optlit(m['node_id'], zlit)} {optlit(m['flight'], nm.b)} {blit(m['is_self'])} "
        f"{STATUS[m['status']]} {blit(m['seen'])} {optlit(m['last_error'], nm.b)} {zlit(m['fails'])}"
        for m in v["members"])
    ps = "; ".join(nm.b(a) for a in v["peers"])
    return (f"mkView [{ms}] [{ps}] {zlit(v['generation'])} {blit(v['resolved'])} "
            f"{optlit(v['last_resolve_error'], nm.b)}")


def case_term(c, o, nm):
    if "views" not in o:
        return "[false; false; false]"
    selfs = "[" + "; ".join(nm.b(a) for a, t in o["is_self"] if t) + "]"
    ops = "[" + ";\n   ".join(op_term(x, nm) for x in c["ops"]) + "]"
    impl = "[" + ";\n   ".join(view_term(v, nm) for v in o["views"]) + "]"
    sa = nm.b(c["self"])
    return (f"(let isf := (fun a : bytes => mem a {selfs}) in\n  let ops := {ops} in\n  let impl := {impl} in\n"
            f"  [trace_eqb impl (trace {sa} {zlit(c['self_id'])} isf ops); spec_ok {sa} isf ops impl; isf {sa}])")


def evaluate(ctx, cases):
    outs = vlib.run_harness("c15", cases)
    strings = list(MSGS) + FLIGHTS
    for c in cases:
        strings += c["universe"] + [c["self"]]
    nm = Names(strings)
    vals = vlib.coq_eval_list(REQ, nm.prelude(), [case_term(c, o, nm) for c, o in zip(cases, outs)], "c15", shard=25)
    eq = [bool(v[0]) for v in vals]
    # v[2]: the assumption `is_self self_addr = true` holds of the tabulated real predicate
    ok = [bool(v[1] and v[2] and o.get("is_self_stable")) for v, o in zip(vals, outs)]
    return outs, eq, ok


def run(ctx):
    proved = ctx.prove()
    lip = local_ipv4()
    uni = universe(lip)
    n = ctx.n(300, 5000)
    cases = [gen_case(ctx.rng, uni, 30) for _ in range(n)]
    if not proved:
        cases += [gen_case(ctx.rng, uni, 30) for _ in range(1500)]
    outs, eq, ok = evaluate(ctx, cases)
    ctx.cov["evaluations"] = len(cases)
    seen = set()
    dist = {"ops_total": 0, "set": 0, "err": 0, "up": 0, "down": 0, "flight": 0, "max_ops": 0,
            "histories_with_self_alias_in_discovery": 0, "histories_with_port_only_neighbour": 0,
            "re_resolve_same_set_with_probed_peers": 0, "max_members": 0, "max_generation": 0,
            "self_spellings_reported_self": sorted({a for o in outs for a, t in o.get("is_self", []) if t}),
            "local_interface_ip": lip}
    for c, o in zip(cases, outs):
        dist["ops_total"] += len(c["ops"])
        dist["max_ops"] = max(dist["max_ops"], len(c["ops"]))
        for x in c["ops"]:
            dist[x["op"]] += 1
        if "views" not in o:
            continue
        selfset = {a for a, t in o["is_self"] if t}
        if any(x["op"] == "set" and any(a in selfset and a != c["self"] for a in x["addrs"]) for x in c["ops"]):
            dist["histories_with_self_alias_in_discovery"] += 1
        host = c["self"].rsplit(":", 1)[0]
        if any(x["op"] == "set" and any(a.rsplit(":", 1)[0] == host and a not in selfset for a in x["addrs"])
               for x in c["ops"]):
            dist["histories_with_port_only_neighbour"] += 1
        vs = o["views"]
        for i, x in enumerate(c["ops"]):
            if (x["op"] == "set" and vs[i]["peers"] == vs[i + 1]["peers"] and vs[i]["peers"]
                    and any(m["status"] != "unknown" for m in vs[i]["members"] if not m["is_self"])):
                dist["re_resolve_same_set_with_probed_peers"] += 1
                break
        dist["max_members"] = max(dist["max_members"], max(len(v["members"]) for v in vs))
        dist["max_generation"] = max(dist["max_generation"], vs[-1]["generation"])
        if vs[-1]["generation"] >= 3 and max(len(v["members"]) for v in vs) >= 3:
            seen.add(json.dumps([c["self"], c["ops"]], sort_keys=True))
    ctx.cov["distinct_nontrivial"] = len(seen)
    ctx.cov["input_distribution"] = dist
    for c, o in list(zip(cases, outs))[:40]:
        if 3 <= len(c["ops"]) <= 8:
            ctx.sample({"input": {k: c[k] for k in ("self", "self_id", "ops")}, "impl_output": o}, limit=3)
    ctx.judge(cases, eq, ok, impl_outs=outs)
    if not proved and not ctx.violations:
        ctx.proof_broken_violation(f"{len(cases)} generated histories, none violates the executable spec")
    return ctx.finish(
        rule="random histories (0..30 ops: set-members incl. duplicates / self spellings / re-resolving the same set, "
             "resolve errors, probe up/down on members and non-members, set_self_flight) over a fixed universe: this "
             "node as 127.0.0.1/localhost/[::1]/local-interface IP on the same port, port-only neighbours, 10.0.0.x "
             "peers, unresolvable names; self address varied; every view (before and after each op) compared with the "
             "model and checked by spec_ok; non-trivial = final generation >= 3 and some view with >= 3 members, "
             "distinct by (self, ops)",
        assumptions=["is_self_address(a, self_address) is a fixed function during one history (tabulated per case from "
                     "the real code before the history and re-checked after it) and is true on self_address itself",
                     "generation theorems hold for histories shorter than 2^64 operations (u64 counter; the unbounded "
                     "statement is refuted in C15_generation_monotone_unbounded_refuted)",
                     "last_seen_unix_ms is observed only as is_some(); last_resolved_unix_ms is not observed",
                     "HashSet iteration order in set_members does not influence the resulting BTreeMap (model fixes one order)"])


def replay(ctx, obj):
    c = obj.get("case") or obj.get("first_differing_case")
    outs, eq, ok = evaluate(ctx, [c])
    print("impl_output:", json.dumps(outs[0])); print("impl_equals_model:", eq[0], "spec_ok:", ok[0])
    return 0 if ok[0] and eq[0] else 1
