"""C17 — an Iceberg snapshot reads exactly its live data files.
Theorems in coq/theories/Props/C17.v. Correspondence: the harness writes a real table directory (metadata JSON,
Avro manifest lists/manifests, Parquet data files) and reads it through open_iceberg_table and
register_iceberg + SELECT; the same directory is evaluated by C17.Model.open_table inside Coq.
Two streams: (1) histories, replayed here AND by C17.Model.replay_table (the two directories are compared
inside Coq with table_eqb), judged against the abstract spec (spec_ok_hist); (2) mutated / malformed
directories judged against the declarative directory-level spec (spec_ok)."""
import copy
import json
import vlib
from vlib import zlit

REQ = "From Coq Require Import String.\nFrom QV Require Import Base.Util C17.Model."
FORMS = ["FFile3", "FFile1", "FAbs", "FRel"]
NAME_POOL = ["f1.parquet", "f2.parquet", "f10.parquet", "a.parquet", "B.parquet", "a-b.parquet", "a.b.parquet",
             "x y.parquet", "part-00000.parquet", "z", "f1.parquet.bak", "~t.parquet", "F1.parquet"]


# ---------------------------------------------------------------- Coq rendering
def cstr(s):
    assert all(32 <= ord(c) < 127 or c in "\n\t\r" for c in s), s
    return '(bs "' + s.replace('"', '""') + '"%string)'


def clist(items):
    return "[" + "; ".join(items) + "]"


def copt(x, f):
    return "None" if x is None else f"(Some {f(x)})"


def uri_of(form, rel):
    if form == "FFile3":
        return "file://@T@/" + rel
    if form == "FFile1":
        return "file:@T@/" + rel
    if form == "FAbs":
        return "@T@/" + rel
    return rel


def name_rows(n):
    h = 7
    for c in n.encode():
        h = (h * 31 + c) % 1000003
    h *= 4
    return [h, h + 1] if len(n.encode()) % 2 == 0 else [h]


# ---------------------------------------------------------------- the writer (mirror of C17.Model.l_step / render)
def l_init():
    return {"metas": [{"v": 1, "lu": 0, "cur": None, "snaps": []}], "snaps": [], "mans": [], "files": [],
            "clock": 0, "next_sid": 1, "next_man": 0}


def cur_mans(s):
    m = s["metas"][0]
    if m["cur"] is None:
        return []
    for x in m["snaps"]:
        if x["id"] == m["cur"]:
            return x["mans"]
    return []


def find_man(s, i):
    for m in s["mans"]:
        if m["id"] == i:
            return m
    return None


def live_entries(es):
    return [n for (st, n) in es if st != 2]


def push_meta(s, dt, cur, snaps):
    s["clock"] += dt
    s["metas"].insert(0, {"v": s["metas"][0]["v"] + 1, "lu": s["clock"], "cur": cur, "snaps": snaps})


def commit(s, dt, f, mans, newmans, files):
    snap = {"id": s["next_sid"], "ts": s["clock"] + dt, "form": f, "mans": mans}
    push_meta(s, dt, s["next_sid"], s["metas"][0]["snaps"] + [snap])
    s["snaps"].insert(0, snap)
    s["mans"] = newmans + s["mans"]
    s["files"] = files + s["files"]
    s["next_sid"] += 1
    s["next_man"] += len(newmans)


def rewrite_mans(s, names, f, nxt, ids):
    if not ids:
        return [], []
    i, r = ids[0], ids[1:]
    m = find_man(s, i)
    if m is not None and any(n in names for n in live_entries(m["entries"])):
        ids2, new = rewrite_mans(s, names, f, nxt + 1, r)
        ents = [(2 if n in names else 0, n) for (st, n) in m["entries"] if st != 2]
        return [nxt] + ids2, new + [{"id": nxt, "form": f, "entries": ents}]
    ids2, new = rewrite_mans(s, names, f, nxt, r)
    return [i] + ids2, new


def l_step(s, o):
    k = o[0]
    m = s["metas"][0]
    if k == "Append":
        _, dt, f, names = o
        j = s["next_man"]
        commit(s, dt, f, cur_mans(s) + [j], [{"id": j, "form": f, "entries": [(1, n) for n in names]}], list(names))
    elif k == "Remove":
        _, dt, f, names = o
        ids, new = rewrite_mans(s, names, f, s["next_man"], cur_mans(s))
        commit(s, dt, f, ids, new, [])
    elif k == "RewriteManifests":
        _, dt, f = o
        j = s["next_man"]
        live = [n for i in cur_mans(s) for n in (live_entries(find_man(s, i)["entries"]) if find_man(s, i) else [])]
        commit(s, dt, f, [j], [{"id": j, "form": f, "entries": [(0, n) for n in live]}], [])
    elif k == "RewriteMeta":
        push_meta(s, o[1], m["cur"], m["snaps"])
    elif k == "SetCurrent":
        _, dt, sid = o
        listed = any(x["id"] == sid for x in m["snaps"])
        push_meta(s, dt, sid if listed else m["cur"], m["snaps"])
    elif k == "Expire":
        _, dt, sid = o
        if m["cur"] is not None and m["cur"] == sid:
            push_meta(s, dt, m["cur"], m["snaps"])
        else:
            push_meta(s, dt, m["cur"], [x for x in m["snaps"] if x["id"] != sid])


def l_replay(h):
    s = l_init()
    for o in h:
        l_step(s, o)
    return s


def render(s, use_hint):
    """-> directory description in the harness's case format (paths with @T@)."""
    def meta(m):
        return {"name": f"v{m['v']}.metadata.json",
                "body": {"fv": 2, "lu": m["lu"], "cur": m["cur"],
                         "snaps": [{"id": x["id"], "ts": x["ts"], "ml": uri_of(x["form"], f"metadata/snap-{x['id']}.avro")}
                                   for x in m["snaps"]]}}
    return {
        "hint": str(s["metas"][0]["v"]) if use_hint else None,
        "meta": [meta(m) for m in s["metas"]],
        "lists": [{"rel": f"metadata/snap-{x['id']}.avro",
                   "manifests": [uri_of(x["form"], f"metadata/m{i}.avro") for i in x["mans"]]} for x in s["snaps"]],
        "mans": [{"rel": f"metadata/m{m['id']}.avro", "v1": False,
                  "entries": [{"status": st, "content": 0, "format": "PARQUET", "path": uri_of(m["form"], "data/" + n)}
                              for (st, n) in m["entries"]]} for m in s["mans"]],
        "data": [{"rel": "data/" + n, "rows": name_rows(n)} for n in s["files"]],
        "tslash": False,
    }


def op_term(o):
    k = o[0]
    names = lambda l: clist([cstr(n) for n in l])
    if k in ("Append", "Remove"):
        return f"({k} {zlit(o[1])} {o[2]} {names(o[3])})"
    if k == "RewriteManifests":
        return f"(RewriteManifests {zlit(o[1])} {o[2]})"
    if k == "RewriteMeta":
        return f"(RewriteMeta {zlit(o[1])})"
    return f"({k} {zlit(o[1])} {zlit(o[2])})"


def table_term(d, tdir):
    sub = lambda s: s.replace("@T@", tdir)
    key = lambda rel: cstr(sub("@T@/" + rel))

    def md(b):
        if b is None:
            return "None"
        snaps = clist([f"(mkSnap {zlit(x['id'])} {zlit(x['ts'])} {cstr(sub(x['ml']))})" for x in b["snaps"]])
        return f"(Some (mkMd {zlit(b['fv'])} {zlit(b['lu'])} {copt(b['cur'], zlit)} {snaps}))"

    def ent(m, e):
        content = "None" if m.get("v1") else f"(Some {zlit(e['content'])})"
        return f"(mkEntry {zlit(e['status'])} {content} {cstr(e['format'])} {cstr(sub(e['path']))})"
    return ("(mkTable " + cstr(tdir + ("/" if d.get("tslash") else "")) + " " + copt(d["hint"], cstr) + " "
            + clist([f"({cstr(m['name'])}, {md(m['body'])})" for m in d["meta"]]) + " "
            + clist([f"({key(l['rel'])}, {clist([cstr(sub(u)) for u in l['manifests']])})" for l in d["lists"]]) + " "
            + clist([f"({key(m['rel'])}, {clist([ent(m, e) for e in m['entries']])})" for m in d["mans"]]) + " "
            + clist([f"({key(x['rel'])}, {vlib.zlist(x['rows'])})" for x in d["data"]]) + ")")


CLASS = {"Storage": 0, "NotImplemented": 1, "Io": 2}


def impl_term(r, tdir):
    """one query's harness result -> (Coq impl_out term, python-side consistency flag)"""
    o, q = r.get("open", {}), r.get("sql", {})
    if "ok" in o:
        consistent = "ok" in q and q.get("row_count") == len(q["ok"]) and o["ok"].get("md_parent_ok") is True
        rows = q.get("ok", [])
        files = clist([cstr(f.replace("@T@", tdir)) for f in o["ok"]["files"]])
        return f"(IOk {cstr(o['ok']['md'])} {zlit(o['ok']['sid'])} {files} {vlib.zlist(rows)})", consistent
    if "err" in o:
        consistent = "err" in q and q["err"]["variant"] == o["err"]["variant"]
        return f"(IErr {CLASS.get(o['err']['variant'], 3)})", consistent
    return "(IErr 99)", False


# ---------------------------------------------------------------- generators
def gen_history(rng, use_hint):
    h = []
    s = l_init()
    nops = rng.randint(1, 8)
    pool = rng.sample(NAME_POOL, rng.randint(3, 8))
    for _ in range(nops):
        dt = rng.choice([0, 0, 1, 5]) if use_hint else rng.choice([1, 1, 2, 7, 1000])
        f = rng.choice(FORMS)
        live = [n for i in cur_mans(s) for n in live_entries(find_man(s, i)["entries"])]
        listed = [x["id"] for x in s["metas"][0]["snaps"]]
        k = rng.choices(["Append", "Remove", "RewriteManifests", "RewriteMeta", "SetCurrent", "Expire"],
                        [40, 22, 8, 8, 11, 11])[0]
        if k == "Append":
            fresh = [n for n in pool if n not in s["files"]]
            src = fresh if fresh and rng.random() < 0.85 else pool     # sometimes re-add / double-add
            o = ("Append", dt, f, rng.sample(src, min(len(src), rng.choice([0, 1, 1, 2, 2, 3])) if rng.random() < .95 else 0))
        elif k == "Remove":
            src = live if live and rng.random() < 0.85 else pool
            o = ("Remove", dt, f, rng.sample(src, min(len(src), rng.choice([1, 1, 2, 3, len(src)]))))
        elif k == "RewriteManifests":
            o = (k, dt, f)
        elif k == "RewriteMeta":
            o = (k, dt)
        else:
            sid = rng.choice(listed) if listed and rng.random() < 0.85 else rng.choice([0, 99, -1, s["next_sid"]])
            o = (k, dt, sid)
        h.append(o)
        l_step(s, o)
    return h


def queries_for(rng, s):
    listed = [x["id"] for x in s["metas"][0]["snaps"]]
    ever = list(range(1, s["next_sid"]))
    qs = [None] + listed + [i for i in ever if i not in listed][:2] + [rng.choice([0, 4242, -3, s["next_sid"]])]
    return qs


MUTATIONS = ["delete_file", "format", "remote_path", "remote_manifest", "remote_list", "status", "empty", "hint",
             "corrupt_meta", "junk", "pyname", "tie", "missing_data", "missing_manifest", "missing_list", "dup_entry",
             "v1", "tslash", "fv", "cur", "dup_sid", "subdirs", "odd_uri", "case_format"]


def mutate(rng, d, mut):
    """apply one mutation to a directory description (in place); returns False when not applicable"""
    ents = [(m, i) for m in d["mans"] for i in range(len(m["entries"]))]
    metas = [m for m in d["meta"] if m["body"] is not None]
    if mut == "delete_file":
        if not ents: return False
        m, i = rng.choice(ents); m["entries"][i]["content"] = rng.choice([1, 2, 1, 2, -1, 7]); m["v1"] = False
    elif mut == "format":
        if not ents: return False
        m, i = rng.choice(ents); m["entries"][i]["format"] = rng.choice(["ORC", "AVRO", "orc", "avro", "PARQUET ", "parque", ""])
    elif mut == "case_format":
        if not ents: return False
        m, i = rng.choice(ents); m["entries"][i]["format"] = rng.choice(["parquet", "Parquet", "pArQuEt", "PARQUET"])
    elif mut == "remote_path":
        if not ents: return False
        m, i = rng.choice(ents)
        m["entries"][i]["path"] = rng.choice(["s3://bucket/data/f1.parquet", "hdfs://nn:8020/w/f1.parquet", "s3a://b/k",
                                              "gs://b/f.parquet", "abfss://c@a.dfs/f.parquet", "x://y"])
    elif mut == "remote_manifest":
        ls = [l for l in d["lists"] if l["manifests"]]
        if not ls: return False
        l = rng.choice(ls); l["manifests"][rng.randrange(len(l["manifests"]))] = rng.choice(["s3://bucket/metadata/m0.avro", "hdfs://nn/m.avro"])
    elif mut == "remote_list":
        ss = [x for m in metas for x in m["body"]["snaps"]]
        if not ss: return False
        sid = rng.choice(ss)["id"]
        for m in metas:
            for x in m["body"]["snaps"]:
                if x["id"] == sid: x["ml"] = "s3://bucket/metadata/snap-%d.avro" % sid
    elif mut == "status":
        if not ents: return False
        m, i = rng.choice(ents); m["entries"][i]["status"] = rng.choice([2, 2, 0, 1, 3, -1])
    elif mut == "empty":
        if rng.random() < 0.5 and d["lists"]:
            rng.choice(d["lists"])["manifests"] = []
        else:
            for m in d["mans"]:
                for e in m["entries"]: e["status"] = 2
    elif mut == "hint":
        vs = [m["name"][1:].split(".")[0] for m in d["meta"] if m["name"].startswith("v")]
        v = rng.choice(vs) if vs else "1"
        d["hint"] = rng.choice([None, "99", "0", "", "v" + v, " " + v + "\n", "vv" + v, v + "\r\n", "\t" + v, v, v + " x", "V" + v])
    elif mut == "corrupt_meta":
        if not d["meta"]: return False
        rng.choice(d["meta"])["body"] = None
    elif mut == "junk":
        d["meta"].insert(rng.randrange(len(d["meta"]) + 1),
                         {"name": rng.choice(["x.metadata.jsonl", "v9.metadata.json.bak", "notes.txt", "metadata.json", ".metadata.json"]),
                          "body": None})
    elif mut == "pyname":
        d["hint"] = None
        for m in d["meta"]:
            if m["name"].startswith("v"):
                v = int(m["name"][1:].split(".")[0])
                m["name"] = "%05d-%08x-aaaa-bbbb.metadata.json" % (v - 1, (v * 2654435761) % 2**32)
    elif mut == "tie":
        if len(metas) < 2: return False
        d["hint"] = None
        t = rng.choice(metas)["body"]["lu"]
        for m in rng.sample(metas, rng.randint(2, len(metas))): m["body"]["lu"] = t
    elif mut == "missing_data":
        if not d["data"]: return False
        d["data"].pop(rng.randrange(len(d["data"])))
    elif mut == "missing_manifest":
        if not d["mans"]: return False
        d["mans"].pop(rng.randrange(len(d["mans"])))
    elif mut == "missing_list":
        if not d["lists"]: return False
        d["lists"].pop(rng.randrange(len(d["lists"])))
    elif mut == "dup_entry":
        if not ents: return False
        m, i = rng.choice(ents)
        e = dict(m["entries"][i])
        p = e["path"]
        for pre in ("file://@T@/", "file:@T@/", "@T@/"):
            if p.startswith(pre): p = p[len(pre):]
        if "://" in p: return False
        e["path"] = rng.choice(["file://@T@/" + p, "file:@T@/" + p, "@T@/" + p, p, "@T@//" + p, "./" + p,
                                p.replace("/", "//", 1), p.replace("/", "/./", 1), "file:////@T@/" + p])
        e["status"] = rng.choice([0, 1])
        rng.choice(d["mans"])["entries"].append(e)
    elif mut == "v1":
        if not d["mans"]: return False
        rng.choice(d["mans"])["v1"] = True
    elif mut == "tslash":
        d["tslash"] = True
    elif mut == "fv":
        if not metas: return False
        rng.choice(metas)["body"]["fv"] = rng.choice([1, 3, 0, 1])
    elif mut == "cur":
        if not metas: return False
        rng.choice(metas)["body"]["cur"] = rng.choice([None, -1, 77, 1])
    elif mut == "dup_sid":
        ms = [m for m in metas if len(m["body"]["snaps"]) >= 2]
        if not ms: return False
        m = rng.choice(ms); a, b = rng.sample(range(len(m["body"]["snaps"])), 2)
        m["body"]["snaps"][a]["id"] = m["body"]["snaps"][b]["id"]
        if rng.random() < 0.5: m["body"]["snaps"][a]["ts"] = m["body"]["snaps"][b]["ts"]
    elif mut == "subdirs":
        if not d["data"]: return False
        ren = {}
        for x in d["data"]:
            base = x["rel"].split("/")[-1]
            ren[x["rel"]] = "data/" + rng.choice(["a/", "a.b/", "a-b/", "a/b/", "A/", ""]) + base
        for x in d["data"]: x["rel"] = ren[x["rel"]]
        for m in d["mans"]:
            for e in m["entries"]:
                for old, new in ren.items():
                    if e["path"].endswith(old): e["path"] = e["path"][:-len(old)] + new
    elif mut == "odd_uri":
        if not ents: return False
        m, i = rng.choice(ents)
        p = m["entries"][i]["path"]
        for pre in ("file://@T@/", "file:@T@/", "@T@/"):
            if p.startswith(pre): p = p[len(pre):]
        if "://" in p: return False
        m["entries"][i]["path"] = rng.choice(["file:////@T@/" + p, "file://localhost@T@/" + p, "file:" + "@T@/"[1:] + p,
                                              "file://@T@//" + p, "@T@/./" + p, "file:///@T@/" + p, "FILE://@T@/" + p])
    return True


def gen_raw(rng):
    use_hint = rng.random() < 0.5
    h = gen_history(rng, use_hint)
    s = l_replay(h)
    d = render(s, use_hint)
    muts = []
    for _ in range(rng.choice([1, 1, 2, 3])):
        m = rng.choice(MUTATIONS)
        if mutate(rng, d, m):
            muts.append(m)
    for m in d["mans"]:
        m["deflate"] = rng.random() < 0.5; m["wrap"] = rng.random() < 0.3
    for l in d["lists"]:
        l["deflate"] = rng.random() < 0.5
    d["queries"] = queries_for(rng, s)[:5]
    return {"kind": "raw", "dir": d, "mutations": muts}


def gen_hist(rng):
    use_hint = rng.random() < 0.5
    h = gen_history(rng, use_hint)
    s = l_replay(h)
    d = render(s, use_hint)
    for m in d["mans"]:
        m["deflate"] = rng.random() < 0.5; m["wrap"] = False
    for l in d["lists"]:
        l["deflate"] = rng.random() < 0.5
    d["queries"] = queries_for(rng, s)
    return {"kind": "hist", "history": [list(o) for o in h], "use_hint": use_hint, "dir": d}


def directed():
    """fixed cases: the fixtures' shape, and the equal-timestamp v9/v10 directory (model and engine both pick v9)."""
    out = []
    h = [("Append", 5, "FFile3", ["f1.parquet"])] + [("RewriteMeta", 1)] * 7 + [("Append", 0, "FFile3", ["f2.parquet"])]
    d = render(l_replay(h), False)
    d["queries"] = [None, 1, 2]
    out.append({"kind": "raw", "dir": d, "mutations": ["directed:tie-v9-v10"]})
    h2 = [("Append", 5, "FFile3", ["f1.parquet", "f2.parquet"]), ("Remove", 5, "FFile3", ["f1.parquet"]),
          ("Append", 5, "FRel", ["f1.parquet"]), ("RewriteManifests", 1, "FAbs"), ("Expire", 1, 1)]
    for hint in (True, False):
        d = render(l_replay(h2), hint)
        d["queries"] = [None, 1, 2, 3, 4, 5]
        out.append({"kind": "hist", "history": [list(o) for o in h2], "use_hint": hint, "dir": d})
    return out


# ---------------------------------------------------------------- evaluation
def case_term(c, o):
    d = c["dir"]
    tdir = o.get("tdir")
    res = o.get("results")
    if tdir is None or res is None or len(res) != len(d["queries"]):
        return "[[false; false; false]]", [False]
    T = table_term(d, tdir)
    items, flags = [], []
    if c["kind"] == "hist":
        h = clist([op_term(tuple(x)) for x in c["history"]])
        hint = "true" if c["use_hint"] else "false"
        head = (f"[table_eqb T (replay_table dir {hint} h); wf_history h && good_dir dir"
                + ("" if c["use_hint"] else " && strict_clock h") + "; true]")
    else:
        h = "(@nil op)"
        head = "[true; true; true]"
    for q, r in zip(d["queries"], res):
        it, fl = impl_term(r, tdir)
        flags.append(fl)
        qt = copt(q, zlit)
        spec = f"spec_ok T {qt} i"
        if c["kind"] == "hist":
            spec = f"spec_ok_hist dir h {qt} i && " + spec
        # [impl == model; impl satisfies spec; MODEL satisfies the directory-level spec too]
        items.append(f"(let i := {it} in let m := open_table T {qt} in [out_eqb T i m; {spec}; spec_ok T {qt} (impl_of T m)])")
    return (f"(let dir := {cstr(tdir)} in let T := {T} in let h := {h} in " + clist([head] + items) + ")"), flags


def run_harness_parallel(dirs, chunk=60, workers=8):
    """the harness is a sequential process (one temp directory per case); run several side by side"""
    from concurrent.futures import ThreadPoolExecutor
    vlib.run_harness("c17", [])                      # build once, serially
    chunks = [dirs[i:i + chunk] for i in range(0, len(dirs), chunk)]
    with ThreadPoolExecutor(max_workers=workers) as ex:
        parts = list(ex.map(lambda ch: vlib.run_harness("c17", ch), chunks))
    return [o for p in parts for o in p]


def evaluate(ctx, cases):
    outs = run_harness_parallel([c["dir"] for c in cases])
    terms, flags = [], []
    for c, o in zip(cases, outs):
        t, f = case_term(c, o)
        terms.append(t); flags.append(f)
    vals = vlib.coq_eval_list(REQ, "", terms, "c17", shard=40)
    eq, ok = [], []
    for v, f in zip(vals, flags):
        head, rest = v[0], v[1:]
        gen_ok = bool(head[0]) and bool(head[1])            # generator built exactly replay_table; hypotheses hold
        eq.append(gen_ok and all(r[0] for r in rest) and all(r[2] for r in rest))
        ok.append(all(r[1] for r in rest) and all(f))
    return outs, eq, ok, vals


def run(ctx):
    proved = ctx.prove(allow=[])
    nh, nr = ctx.n(120, 2500), ctx.n(130, 1500)
    cases = directed() + [gen_hist(ctx.rng) for _ in range(nh)] + [gen_raw(ctx.rng) for _ in range(nr)]
    if not proved:
        cases += [gen_hist(ctx.rng) for _ in range(600)] + [gen_raw(ctx.rng) for _ in range(600)]
    outs, eq, ok, vals = evaluate(ctx, cases)
    nq = sum(len(c["dir"]["queries"]) for c in cases)
    ctx.cov["evaluations"] = nq
    seen = set()
    n_ok = n_err = 0
    err_variants = {}
    for c, o in zip(cases, outs):
        for q, r in zip(c["dir"]["queries"], o.get("results", [])):
            if "ok" in r.get("open", {}):
                n_ok += 1
            else:
                n_err += 1
                v = r.get("open", {}).get("err", {}).get("variant", "?")
                err_variants[v] = err_variants.get(v, 0) + 1
        if len(c["dir"]["lists"]) >= 2:       # non-trivial: at least two snapshots written
            d = {k: v for k, v in c["dir"].items()}
            seen.add(json.dumps(d, sort_keys=True))
    ctx.cov["distinct_nontrivial"] = len(seen)
    muts = {}
    for c in cases:
        for m in c.get("mutations", []):
            muts[m] = muts.get(m, 0) + 1
    opsn = {}
    for c in cases:
        for o in c.get("history", []):
            opsn[o[0]] = opsn.get(o[0], 0) + 1
    ctx.cov["input_distribution"] = {
        "histories": sum(1 for c in cases if c["kind"] == "hist"), "mutated_directories": sum(1 for c in cases if c["kind"] == "raw"),
        "queries": nq, "opened_ok": n_ok, "refused": n_err, "refusal_variants": err_variants, "ops": opsn, "mutations": muts,
        "with_hint": sum(1 for c in cases if c["dir"]["hint"] is not None),
        "max_ops": max((len(c.get("history", [])) for c in cases), default=0)}
    for c, o in list(zip(cases, outs))[1:4]:
        ctx.sample({"input": c, "impl_output": o})
    ctx.judge(cases, eq, ok, impl_outs=outs)
    if not proved and not ctx.violations:
        ctx.proof_broken_violation(f"{len(cases)} generated directories / {nq} reads, none violates the executable spec")
    return ctx.finish(
        rule="histories of 1-8 operations (append 0-3 files incl. re-adds, remove, manifest rewrite, metadata rewrite, rollback, "
             "expire; every URI form; with and without version-hint) replayed by the check and by C17.Model.replay_table "
             "(directories compared in Coq), read at current / every listed / expired / unknown snapshot; plus directories "
             "mutated by 1-3 of " + ", ".join(MUTATIONS) + "; non-trivial = at least two snapshots written, distinct by directory",
        assumptions=["paths contain no `..` component and no symlinks; the table directory is absolute; version-hint.text is ASCII",
                     "apache-avro decodes what apache-avro encoded (manifest lists/manifests are written by the harness with the same crate)",
                     "serde_json / std::fs behave as specified (missing file => error; read_dir lists every file once)",
                     "Rust's stable sort + dedup on PathBuf compare paths component-wise (std::path) as transcribed in path_cmp",
                     "a ParquetTable over a file list scans every listed file exactly once (C18-C20 cover the Parquet path)"])


def replay(ctx, obj):
    c = obj.get("case") or obj.get("first_differing_case")
    outs, eq, ok, vals = evaluate(ctx, [c])
    print("impl_output:", json.dumps(outs[0])[:3000])
    print("coq [generator==replay_table, hypotheses] then per query [impl==model, spec_ok]:", vals[0])
    print("impl_equals_model:", eq[0], "spec_ok:", ok[0])
    return 0 if ok[0] and eq[0] else 1
