"""C12 — LPT assignment: theorems in coq/theories/Props/C12.v; correspondence assign_lpt vs C12.Model.assign."""
import vlib
from vlib import zlit, zlist, natlist, bytes_of_str

REQ = "From QV Require Import Base.Util C12.Model."

def gen_case(rng, small):
    nodes = rng.choice([1, 2, 3]) if small else rng.choice([0, 1, 2, 3, 4, 5, 7, 8, 16, 33, 64])
    n = rng.randint(0, 7) if small else rng.choice([0, 1, 2, 3, 5, 8, 13, 21, 40, 64])
    style = rng.choice(["ties", "zero", "wide", "huge", "tiny"])
    splits = []
    files = [rng.choice(["a.parquet", "b.parquet", "a", "é.parquet", "Z.parquet", "a.parquet0"]) for _ in range(3)]
    for i in range(n):
        if small:
            b = rng.randint(0, 9)
        elif style == "ties":
            b = rng.choice([0, 5, 5, 7, 100])
        elif style == "zero":
            b = rng.choice([0, 0, 1])
        elif style == "wide":
            b = rng.randint(0, 10**6)
        elif style == "huge":
            b = rng.choice([2**40, 2**40 - 1, 2**39, rng.randint(0, 2**40)])
        else:
            b = rng.randint(0, 3)
        splits.append({"table": rng.choice(["t", "t", "t", "u"]), "file": rng.choice(files), "rg": rng.randint(0, 3),
                       "off": rng.choice([0, 0, 10, 20]), "rows": rng.randint(0, 1000), "bytes": b})
    return {"nodes": nodes, "splits": splits, "small": small}

def split_term(s):
    return (f"(mkSplit {bytes_of_str(s['table'])} {bytes_of_str(s['file'])} {zlit(s['rg'])} {zlit(s['off'])} "
            f"{zlit(s['rows'])} {zlit(s['bytes'])})")

def case_term(c, o):
    ss = "[" + "; ".join(split_term(s) for s in c["splits"]) + "]"
    if "per_node" not in o:
        return "[false; false; false]"
    pn = "[" + "; ".join(natlist(l) for l in o["per_node"]) + "]"
    impl = (f"(mkAsg {o['nodes']}%nat {pn} {zlist(o['node_bytes'])} {zlist(o['node_rows'])} {zlist(o['node_splits'])})")
    l43 = f"lpt43_ok ss {c['nodes']}%nat impl" if c["small"] else "true"
    return (f"(let ss := {ss} in let impl := {impl} in "
            f"[asg_eqb impl (assign ss {c['nodes']}%nat); spec_ok ss {c['nodes']}%nat impl; {l43}])")

def evaluate(ctx, cases):
    outs = vlib.run_harness("c12", cases)
    vals = vlib.coq_eval_list(REQ, "", [case_term(c, o) for c, o in zip(cases, outs)], "c12")
    eq = [v[0] for v in vals]
    ok = [v[1] and v[2] and bool(o.get("repeat_same")) and o.get("total_bytes") == sum(s["bytes"] for s in c["splits"])
          for v, o, c in zip(vals, outs, cases)]
    return outs, eq, ok

def run(ctx):
    proved = ctx.prove()
    n = ctx.n(400, 6000)
    cases = [gen_case(ctx.rng, small=(i % 3 == 0)) for i in range(n)]
    if not proved:
        # a proof obligation no longer checks: search harder for a concrete failing input
        cases += [gen_case(ctx.rng, small=(i % 2 == 0)) for i in range(2000)]
    outs, eq, ok = evaluate(ctx, cases)
    ctx.cov["evaluations"] = len(cases)
    seen = set()
    for c in cases:
        if len(c["splits"]) >= 2 and max(c["nodes"], 1) >= 2:
            seen.add(repr((c["nodes"], [(s["table"], s["file"], s["rg"], s["off"], s["bytes"]) for s in c["splits"]])))
    ctx.cov["distinct_nontrivial"] = len(seen)
    ctx.cov["input_distribution"] = {
        "nodes": sorted(set(c["nodes"] for c in cases)), "max_splits": max(len(c["splits"]) for c in cases),
        "with_ties": sum(1 for c in cases if len(set(s["bytes"] for s in c["splits"])) < len(c["splits"])),
        "with_zero_byte": sum(1 for c in cases if any(s["bytes"] == 0 for s in c["splits"])),
        "small_with_bruteforce_opt": sum(1 for c in cases if c["small"])}
    for c, o in list(zip(cases, outs))[:3]:
        ctx.sample({"input": c, "impl_output": o})
    ctx.judge(cases, eq, ok, impl_outs=outs)
    if not proved and not ctx.violations:
        ctx.proof_broken_violation(f"{len(cases)} generated instances, none violates the executable spec")
    return ctx.finish(
        rule="random split multisets (ties, zero-byte, up to 2^40 bytes, duplicate canonical keys) x node counts 0..64; "
             "every third case is small (<=7 splits, <=3 nodes) and also checked against brute-force OPT inside Coq; "
             "non-trivial = >=2 splits and >=2 nodes, distinct by (nodes, split list)",
        assumptions=["split byte sizes are u64 and their sum fits u64 (no wrap in node_bytes)",
                     "Rust's stable sort_by equals any stable sort for a total preorder (model uses insertion sort)"])

def replay(ctx, obj):
    c = obj.get("case") or obj.get("first_differing_case")
    outs, eq, ok = evaluate(ctx, [c])
    print("impl_output:", outs[0]); print("impl_equals_model:", eq[0], "spec_ok:", ok[0])
    return 0 if ok[0] and eq[0] else 1
