"""C01 — SQL answers agree with standard SQL semantics. Theorem: coq/theories/Props/C01.v (whole-query agreement of the
engine model with the reference outside the recorded classes). Correspondence: random statements mixing projection, WHERE
(CASE/COALESCE/IN/BETWEEN/LIKE), joins, GROUP BY/HAVING-free aggregates, DISTINCT, set operations, ORDER BY/LIMIT/OFFSET over
1-3 tables of the six column types with NULLs, duplicates and random batch splits; engine vs model vs reference."""
import vlib, relcheck, relgen, relgen2

SCHEMAS = [["i64", "str", "f64"], ["i64", "i32", "date"], ["str", "i64"], ["i64", "bool", "str"], ["date", "f64", "i64"]]

def gen_group(rng, nq):
    sch = rng.choice(SCHEMAS)
    null_p = rng.choice([0.0, 0.2, 0.4])
    tables = [relgen.gen_table(rng, "ta", sch, null_p=null_p), relgen.gen_table(rng, "tb", sch, null_p=null_p),
              relgen.gen_table(rng, "tc", rng.choice(SCHEMAS), null_p=null_p)]
    # all tables are memory tables here: Parquet layouts are C04's subject and statistics-driven rewrites C03's
    qs = []
    for _ in range(nq):
        q, ts = relgen2.gen_query(rng, tables, rng.randint(1, 3))
        q = relgen2.with_order_limit(rng, q, ts)
        qs.append({"q": q, "kind": q[0] if q[0] not in ("sort", "limit") else q[0] + ">" + (q[1][1][0] if q[0] == "limit" else q[1][0])})
    # directed expression atoms over a string column: LIKE shapes that have fast paths in the engine (prefix, suffix, contains,
    # prefix%suffix with overlapping ends, single wildcards), plain and negated, on every stored string incl. NULL
    for ti, t in enumerate(tables):
        sc = [i for i, ty in enumerate(t["types"]) if ty == "str"]
        if sc and rng.random() < 0.7:
            i = rng.choice(sc)
            for _ in range(2):
                pat = rng.choice(["ab%ba", "a%a", "ab%b", "é%é", "a%b", "%a", "a%", "%b%", "_", "a_a", "%", "", "ab_", "_b%"])
                e = ("like", relgen.col(i), relgen.lit(pat), rng.random() < 0.4)
                qs.append({"q": ("filter", relgen.tbl(ti, t), e), "kind": "filter-like"})
    return {"tables": tables, "queries": qs}

def run(ctx):
    proved = ctx.prove()
    groups = [gen_group(ctx.rng, 10) for _ in range(ctx.n(50, 1500))]
    results = relcheck.run_rel(ctx, "c01", groups)
    ran, errs = relcheck.judge_rel(ctx, results, max_error_rate=0.35)
    kinds = {}
    for r in results:
        kinds[r["kind"]] = kinds.get(r["kind"], 0) + 1
    ctx.cov["input_distribution"] = {"by_top_operator": kinds, "groups": len(groups),
        "in_known_class": sum(1 for r in results if r["classes"]),
        "nonconstant_where": sum(1 for r in results if "WHERE" in r["sql"])}
    ctx.cov["distinct_nontrivial"] = len({r["sql"] + str(r["group"]) for r in ran if r["n_sql_rows"] > 0 and r["sql"].count("SELECT") >= 2})
    for r in results[:3]:
        ctx.sample({"sql": r["sql"]})
    if not proved and not ctx.violations:
        ctx.proof_broken_violation(f"{len(results)} statements")
    return ctx.finish(rule="random typed query trees (depth<=3) over 3 tables (six column types, NULL density 0-40%, duplicates, random "
                           "batch splits) + optional ORDER BY/LIMIT/OFFSET; non-trivial = non-empty reference "
                           "result and >= 2 query blocks; distinct by (statement, tables). Engine errors (unsupported shapes) are allowed "
                           "by the property and excluded, counted.",
                      assumptions=["doubles are exact dyadic values; integer magnitudes cannot overflow; no integer division"])

def replay(ctx, obj):
    print("failing case:", obj.get("case")); return run(ctx)
