"""C45 — gathered tables carry every column the statement reads. Theorems: coq/theories/Props/C45.v.
Correspondence (harness bin c45 = c09.rs): the REAL plan_gather on statements that take the gather path, against C45.Model's
collect_scans run on the engine's own optimized plan (serialized by the harness); and the REAL execute_any_distributed
(gather) vs ctx.sql over multi-table Parquet catalogs: joins, IN / EXISTS / scalar subqueries referencing other tables,
columns used only in WHERE or only inside a subquery, CTEs, set operations, window functions, self-joins."""
import json
import vlib, sqlq, sqlgen

REQ = "From QV Require Import Base.Util C45.Model."
CLASS = "subquery-expr-not-walked"

T_COLS = [["id", "i64"], ["a", "i64"], ["b", "i64"], ["s", "str"]]
U_COLS = [["k", "i64"], ["v", "str"], ["w", "i64"]]
X_COLS = [["p", "i64"], ["q", "i64"]]


def gen_catalog(rng, quick):
    nt = rng.choice([0, 3, 8, 14, 20] if quick else [0, 3, 8, 14, 20, 60])
    t = [[i, None if rng.random() < 0.15 else rng.randint(0, 4), None if rng.random() < 0.1 else rng.randint(0, 3),
          rng.choice(["x", "y", None, "zz"])] for i in range(nt)]
    u = [[None if rng.random() < 0.15 else rng.randint(0, 3), rng.choice(["p", "q", "r", None]), rng.randint(4, 9)] for _ in range(rng.choice([0, 2, 5, 6]))]
    x = [[rng.randint(0, 3), rng.randint(0, 30)] for _ in range(rng.choice([0, 1, 3, 4]))]
    def pq(rows):
        n = len(rows)
        return {"files": [rng.randint(0, n)] if rng.random() < 0.6 else [], "row_group": rng.choice([1, 2, 4, 100])}
    return [{"name": "t", "cols": T_COLS, "rows": t, "parquet": pq(t)}, {"name": "u", "cols": U_COLS, "rows": u, "parquet": pq(u)},
            {"name": "x", "cols": X_COLS, "rows": x, "parquet": pq(x)}]


def gen_statements(rng):
    n, m = rng.randint(0, 4), rng.randint(4, 8)
    tc = rng.choice(["id", "a", "b", "s", "id, s", "b, a"])
    tp = rng.choice([f"a > {n}", f"s = 'x' AND b < {n}", "a IS NULL", f"b <> {n} OR a = {n}", f"id BETWEEN {n} AND {n + 9}"])
    S = [
        ("where-only-column", f"SELECT DISTINCT {tc} FROM t WHERE {tp}"),
        ("join", f"SELECT DISTINCT t.{rng.choice(['id', 'a', 's'])}, u.v FROM t JOIN u ON t.b = u.k WHERE u.w > {m}"),
        ("left-join", "SELECT DISTINCT t.id FROM t LEFT JOIN u ON t.b = u.k WHERE u.v IS NULL"),
        ("comma-join", f"SELECT DISTINCT t.id FROM t, u WHERE t.b = u.k AND u.w > {m}"),
        ("count-distinct-join", "SELECT COUNT(DISTINCT t.a), COUNT(*) FROM t JOIN u ON t.b = u.k"),
        ("in", f"SELECT DISTINCT id FROM t WHERE b IN (SELECT k FROM u WHERE w > {m})"),
        ("not-in", f"SELECT DISTINCT id FROM t WHERE b NOT IN (SELECT k FROM u WHERE k IS NOT NULL AND w < {m})"),
        ("exists", f"SELECT DISTINCT id FROM t WHERE EXISTS (SELECT 1 FROM u WHERE u.k = t.b AND u.w > {m})"),
        ("not-exists", "SELECT DISTINCT id FROM t WHERE NOT EXISTS (SELECT 1 FROM u WHERE u.k = t.b)"),
        ("scalar-where", "SELECT DISTINCT id FROM t WHERE a > (SELECT MIN(p) FROM x)"),
        ("scalar-select", f"SELECT DISTINCT id, (SELECT MAX(w) FROM u) AS m FROM t WHERE a = {n}"),
        ("scalar-correlated", f"SELECT DISTINCT id, (SELECT MAX(w) FROM u WHERE u.k = t.b) AS m FROM t WHERE a <= {n}"),
        ("scalar-same-table", "SELECT DISTINCT id FROM t WHERE a >= (SELECT MAX(b) FROM t)"),
        ("scalar-having", "SELECT b, COUNT(DISTINCT a) AS c FROM t GROUP BY b HAVING COUNT(*) > (SELECT COUNT(*) FROM x)"),
        ("scalar-case", "SELECT DISTINCT CASE WHEN a > (SELECT MIN(p) FROM x) THEN 1 ELSE 0 END AS c FROM t"),
        ("in-under-or", f"SELECT DISTINCT id FROM t WHERE b IN (SELECT k FROM u) OR a = {n}"),
        ("cte-join", f"WITH big AS (SELECT id, b FROM t WHERE a >= {n}) SELECT big.id, u.v FROM big JOIN u ON big.b = u.k"),
        ("cte-in", f"WITH c AS (SELECT k FROM u WHERE w > {m}) SELECT DISTINCT id FROM t WHERE b IN (SELECT k FROM c)"),
        ("union", f"SELECT id FROM t WHERE a > {n} UNION SELECT k FROM u WHERE w > {m}"),
        ("union-all", f"SELECT b FROM t WHERE s = 'x' UNION ALL SELECT p FROM x WHERE q > {n}"),
        ("union-scalar", f"SELECT id FROM t WHERE a > {n} UNION SELECT k FROM u WHERE w > (SELECT MIN(q) FROM x)"),
        ("window-rownum", "SELECT id, ROW_NUMBER() OVER (PARTITION BY b ORDER BY id) AS rn FROM t WHERE s = 'x'"),
        ("window-sum", f"SELECT id, SUM(a) OVER (PARTITION BY b) AS sa FROM t WHERE id >= {n}"),
        ("window-scalar", "SELECT id, SUM(a) OVER (PARTITION BY b) AS sa FROM t WHERE id < (SELECT MAX(q) FROM x)"),
        ("self-join", "SELECT COUNT(*) FROM t t1 JOIN t t2 ON t1.b = t2.a WHERE t1.s = 'x'"),
        ("three-tables", "SELECT DISTINCT t.id, x.q FROM t JOIN u ON t.b = u.k JOIN x ON u.w - 4 = x.p"),
        ("derived-agg", f"SELECT d.b, d.c FROM (SELECT b, COUNT(*) AS c FROM t GROUP BY b) AS d WHERE d.c > {n}"),
        ("distinct-order", "SELECT DISTINCT s FROM t ORDER BY s"),
    ]
    # ONE TABLE IN SEVERAL ROLES, IN BOTH VISITING ORDERS. The walk visits a node's inputs, then the subquery plans of its
    # expressions; a scan inside a subquery EXPRESSION is never pruned (all columns), the other scans of the same table are.
    # The all-columns scan reads a column (u.w / t.b) that no pruned scan of that table reads, and it stands in an EARLIER
    # union branch / join input than the pruned scans ("all first"), in a later one ("all last"), or between two.
    sub_w = "(SELECT MIN(w) FROM u)"
    M = [
        ("multi-union-scalar-first", f"SELECT s FROM t WHERE a + 5 > {sub_w} UNION ALL SELECT v FROM u WHERE k = {n % 4}"),
        ("multi-union-scalar-last", f"SELECT v FROM u WHERE k = {n % 4} UNION ALL SELECT s FROM t WHERE a + 5 > {sub_w}"),
        ("multi-union-select-list-first", f"SELECT id, (SELECT MAX(w) FROM u) AS m FROM t WHERE a = {n} UNION ALL SELECT k, k FROM u WHERE v = 'p'"),
        ("multi-union-select-list-last", f"SELECT k, k FROM u WHERE v = 'p' UNION ALL SELECT id, (SELECT MAX(w) FROM u) AS m FROM t WHERE a = {n}"),
        ("multi-union-in-first", f"SELECT id FROM t WHERE b IN (SELECT k FROM u WHERE w > {m}) OR a = {n} UNION ALL SELECT k FROM u WHERE v = 'q'"),
        ("multi-union-in-last", f"SELECT k FROM u WHERE v = 'q' UNION ALL SELECT id FROM t WHERE b IN (SELECT k FROM u WHERE w > {m}) OR a = {n}"),
        ("multi-union-exists-first", f"SELECT id FROM t WHERE EXISTS (SELECT 1 FROM u WHERE u.k = t.b AND u.w > {m}) OR a = {n} "
                                     f"UNION ALL SELECT k FROM u WHERE v = 'r'"),
        ("multi-union-exists-last", f"SELECT k FROM u WHERE v = 'r' UNION ALL SELECT id FROM t WHERE EXISTS "
                                    f"(SELECT 1 FROM u WHERE u.k = t.b AND u.w > {m}) OR a = {n}"),
        ("multi-leftjoin-sub-in-left", f"SELECT DISTINCT d.id, u.v FROM (SELECT id, b FROM t WHERE a + 5 > {sub_w}) AS d LEFT JOIN u ON d.b = u.k"),
        ("multi-leftjoin-sub-in-right", f"SELECT DISTINCT u.v, d.id FROM u LEFT JOIN (SELECT id, b FROM t WHERE a + 5 > {sub_w}) AS d ON d.b = u.k"),
        ("multi-derived-join", f"SELECT DISTINCT d1.id, d2.k FROM (SELECT id, b FROM t WHERE a + 5 >= {sub_w}) AS d1 "
                               f"JOIN (SELECT k FROM u WHERE v = 'p') AS d2 ON d1.b = d2.k"),
        ("multi-derived-join-swapped", f"SELECT DISTINCT d1.id, d2.k FROM (SELECT k FROM u WHERE v = 'p') AS d2 "
                                       f"JOIN (SELECT id, b FROM t WHERE a + 5 >= {sub_w}) AS d1 ON d1.b = d2.k"),
        ("multi-select-list-in-join-input", "SELECT DISTINCT d.id, d.m, u.v FROM (SELECT id, b, (SELECT MAX(w) FROM u) AS m FROM t) AS d "
                                            "LEFT JOIN u ON d.b = u.k"),
        ("multi-three-scans-all-middle", f"SELECT v FROM u WHERE k = 1 UNION ALL SELECT s FROM t WHERE a + 5 > {sub_w} "
                                         f"UNION ALL SELECT v FROM u WHERE k = 2"),
        ("multi-four-scans", f"SELECT s FROM t WHERE a + 5 > {sub_w} UNION ALL SELECT v FROM u WHERE k = 1 UNION ALL "
                             f"SELECT s FROM t WHERE b + 4 < (SELECT MAX(w) FROM u) UNION ALL SELECT v FROM u WHERE k = 3"),
        ("multi-self-join-sub-first", "SELECT id FROM t WHERE a >= (SELECT MAX(b) FROM t) UNION ALL "
                                      "SELECT t1.id FROM t t1 JOIN t t2 ON t1.id = t2.id WHERE t1.s = 'x'"),
        ("multi-self-join-sub-last", "SELECT t1.id FROM t t1 JOIN t t2 ON t1.id = t2.id WHERE t1.s = 'x' UNION ALL "
                                     "SELECT id FROM t WHERE a >= (SELECT MAX(b) FROM t)"),
        ("multi-self-join-filter-sub", "SELECT DISTINCT t1.id FROM t t1 JOIN t t2 ON t1.id = t2.id WHERE t1.a >= (SELECT MAX(b) FROM t)"),
        ("multi-x-roles", f"SELECT q FROM x WHERE p > {n % 3} UNION ALL SELECT id FROM t WHERE a > (SELECT MIN(p) FROM x) "
                          f"UNION ALL SELECT q FROM x WHERE p = 0"),
    ]
    return rng.sample(S, 9) + rng.sample(M, 11)


# ---------------- optimized plan (harness JSON) -> C45.Model term ----------------
class Names:
    def __init__(self, tables):
        self.ids = {}
        self.tables = [t["name"] for t in tables]
        self.schema = []
        for t in tables:
            self.schema.append([self.id(c[0]) for c in t["cols"]])
    def id(self, name):
        return self.ids.setdefault(name, len(self.ids))


def nl(l):
    return "[" + "; ".join(str(x) for x in l) + "]"


def expr_term(e, N):
    if e == "l" or e is None:
        return "ELit"
    if "c" in e:
        return f"(ECol {N.id(e['c'])})"
    if "o" in e:
        return fold_ops([expr_term(x, N) for x in e["o"]])
    if "s" in e:
        return f"(ESub {plan_term(e['s'], N)})"
    if "i" in e:
        return f"(EInSub {expr_term(e['i'][0], N)} {plan_term(e['i'][1], N)})"
    raise ValueError(e)


def fold_ops(ts):
    if not ts:
        return "ELit"
    out = ts[-1]
    for t in reversed(ts[:-1]):
        out = f"(EOp {t} {out})"
    return out


def plan_term(p, N):
    if "scan" in p:
        ti = N.tables.index(p["scan"])
        proj = "None" if p["proj"] is None else f"(Some {nl([N.schema[ti][i] for i in p['proj']])})"
        return f"(PScan {ti} {proj} {expr_term(p['f'], N)})"
    if "leaf" in p:
        return "PLeaf"
    if "un" in p:
        return f"(PUn {plan_term(p['un'], N)} {fold_ops([expr_term(x, N) for x in p['e']])})"
    if "bin" in p:
        return f"(PBin {plan_term(p['bin'][0], N)} {plan_term(p['bin'][1], N)} {fold_ops([expr_term(x, N) for x in p['e']])})"
    if "nary" in p:
        ts = [plan_term(x, N) for x in p["nary"]]
        out = ts[-1] if ts else "PLeaf"
        for t in reversed(ts[:-1]):
            out = f"(PBin {t} {out} ELit)"
        return out
    raise ValueError(p)


def impl_term(gather, N):
    rs = []
    for t in gather["tables"]:
        ti = N.tables.index(t["name"])
        cols = "None" if t["columns"] is None else f"(Some {nl([N.id(c) for c in t['columns']])})"
        rs.append(f"({ti}, {cols})")
    return "[" + "; ".join(rs) + "]"


def rows_canon(res):
    return sorted(json.dumps(r, sort_keys=True) for r in res["ok"]["rows"])


def evaluate(ctx, groups, nodes_of):
    cases = [{"tables": g["tables"], "queries": [s for _, s in g["statements"]], "nodes": nodes_of(gi), "oplan": True, "self_at": gi % 2}
             for gi, g in enumerate(groups)]
    outs = vlib.run_harness("c45", cases, timeout=3000)
    flat, terms = [], []
    for gi, (g, o) in enumerate(zip(groups, outs)):
        res = o.get("results")
        N = Names(g["tables"])
        for qi, (kind, sql) in enumerate(g["statements"]):
            r = res[qi] if res else {"single": {"err": str(o)[:300]}, "plan": {}, "gather": None, "dist": [], "oplan": None}
            on_gather = isinstance(r.get("gather"), dict) and "tables" in r["gather"] and isinstance(r.get("oplan"), dict) and "err" not in r["oplan"]
            flat.append((gi, qi, kind, sql, r, on_gather))
            if on_gather:
                schema = "(fun t => nth t [" + "; ".join(nl(s) for s in N.schema) + "] [])"
                pt = plan_term(r["oplan"], N)     # may allocate ids for derived names; the schema lists only table fields
                terms.append(f"(let p := {pt} in let impl := {impl_term(r['gather'], N)} in "
                             f"[plan_eqb {schema} {len(N.tables)} impl p; spec_ok {schema} impl p; known_subquery_expr p; "
                             f"plan_eqb_fix {schema} {len(N.tables)} impl p; "
                             # the order in which the (repaired) walk meets the scans of one table
                             f"all_then_narrower (collect_fix {schema} p); narrower_then_all (collect_fix {schema} p); "
                             f"all_in_middle (collect_fix {schema} p); "
                             f"existsb (fun t => 2 <=? scans_of_table (collect_fix {schema} p) t) (seq 0 {len(N.tables)}); "
                             f"existsb (fun t => 3 <=? scans_of_table (collect_fix {schema} p) t) (seq 0 {len(N.tables)})])")
    vals = vlib.coq_eval_list(REQ, "Local Open Scope nat_scope.", terms, "c45", shard=100)
    shapes = [v[4:] for v in vals]
    ctx.cov["scan_order_shapes"] = {
        "statements_scanning_a_table_twice_or_more": sum(1 for s in shapes if s[3]),
        "statements_scanning_a_table_three_times_or_more": sum(1 for s in shapes if s[4]),
        "all_columns_scan_met_before_a_narrower_scan_of_the_table": sum(1 for s in shapes if s[0]),
        "all_columns_scan_met_after_a_narrower_scan": sum(1 for s in shapes if s[1]),
        "all_columns_scan_between_two_narrower_scans": sum(1 for s in shapes if s[2])}
    vals = [v[:4] for v in vals]
    # which walk is the tree's? As coded (children() only) or the repaired one (.work/fixes/c45-gather-subquery-exprs.diff)?
    # The two differ only inside the recorded class; the engine must side with ONE of them on every statement.
    coded = sum(1 for v in vals if v[0] and not v[3])
    fixed = sum(1 for v in vals if v[3] and not v[0])
    engine_walks_subquery_exprs = fixed > coded
    ctx.cov["engine_walks_subquery_exprs"] = engine_walks_subquery_exprs
    if engine_walks_subquery_exprs:
        vals = [[v[3], v[1], False, v[3]] for v in vals]      # faithful model = collect_fix; the class is closed
    it = iter(vals)
    judged = []
    for gi, qi, kind, sql, r, on_gather in flat:
        case = {"sql": sql, "kind": kind, "tables": cases[gi]["tables"], "nodes": cases[gi]["nodes"], "self_at": gi % 2}
        single = r["single"]
        info = {"single": str(single)[:300], "gather": r.get("gather"), "plan": r.get("plan"), "dist": [(d["n"], str(d["res"])[:200]) for d in r["dist"]]}
        if not on_gather:
            judged.append((case, True, True, "not-on-gather-path", info, []))
            continue
        eqb, covers, known, _ = next(it)
        case["classes"] = [CLASS] if known else []
        why = []
        if not covers:
            why.append("the gather plan does not hold every table / column the optimized plan (subquery plans included) reads")
        status = "ran"
        if "ok" not in single:
            status = "single-node-error"
        else:
            for d in r["dist"]:
                if "ok" not in d["res"]:
                    why.append(f"n={d['n']}: the gathered re-run failed: {str(d['res'])[:160]}")
                elif rows_canon(d["res"]) != rows_canon(single) or d["res"]["ok"]["cols"] != single["ok"]["cols"]:
                    why.append(f"n={d['n']}: the gathered answer differs from the single-node answer")
        ok = not why or status == "single-node-error"
        eq = bool(eqb)
        judged.append((case, eq, ok, status, dict(info, why=why, model_plan_equals_engine=bool(eqb), model_covers=bool(covers)), case["classes"]))
    return judged


def run(ctx):
    proved = ctx.prove()
    ng = ctx.n(8, 120)
    groups = []
    for _ in range(ng):
        groups.append({"tables": gen_catalog(ctx.rng, ctx.quick), "statements": gen_statements(ctx.rng)})
    def nodes_of(gi):
        return sorted({1 + gi % 2, 2 + (gi * 3) % 7}) if ctx.quick else [1, 2, 3, 5, 8]
    judged = evaluate(ctx, groups, nodes_of)
    ctx.cov["evaluations"] = sum(len(j[4].get("dist", [])) or 1 for j in judged)
    on = [j for j in judged if j[3] != "not-on-gather-path"]
    ctx.cov["distinct_nontrivial"] = len({(j[0]["sql"], json.dumps(j[0]["tables"], sort_keys=True)) for j in on})
    kinds = sorted({j[0]["kind"] for j in judged})
    ctx.cov["input_distribution"] = {
        "statements": len(judged), "on_gather_path": len(on),
        "by_kind": {k: sum(1 for j in on if j[0]["kind"] == k) for k in kinds},
        "in_recorded_class": sum(1 for j in on if j[5]),
        "not_on_gather_path": sorted({j[0]["kind"] for j in judged if j[3] == "not-on-gather-path"}),
        "tables_gathered_histogram": {n: sum(1 for j in on if len(j[4]["gather"]["tables"]) == n) for n in (1, 2, 3)},
        "pruned_column_lists": sum(1 for j in on for t in j[4]["gather"]["tables"] if t["columns"] is not None)}
    for j in on[:3]:
        ctx.sample({"sql": j[0]["sql"], "gather": j[4]["gather"], "dist": j[4]["dist"][:2]})
    def classify(c):
        return CLASS if c.get("classes") else None
    ctx.judge([j[0] for j in judged], [j[1] for j in judged], [j[2] for j in judged], classify=classify, impl_outs=[j[4] for j in judged])
    so = ctx.cov.get("scan_order_shapes", {})
    if ctx.cov.get("engine_walks_subquery_exprs") and not ctx.violations and (
            so.get("all_columns_scan_met_before_a_narrower_scan_of_the_table", 0) == 0
            or so.get("all_columns_scan_met_after_a_narrower_scan", 0) == 0
            or so.get("all_columns_scan_between_two_narrower_scans", 0) == 0):
        ctx.violation({"kind": "coverage lost: no generated statement makes the walk meet an all-columns scan of a table before / "
                               "after / between narrower scans of it, so the per-table merge is not exercised in every order",
                       "scan_order_shapes": so}, found_input=False, tag="merge-order-coverage")
    if not proved and not ctx.violations:
        ctx.proof_broken_violation(f"{len(judged)} statements over generated catalogs, none violates the executable spec")
    return ctx.finish(
        rule="catalogs of three Parquet tables t(id,a,b,s) u(k,v,w) x(p,q) (0..20 rows, several files / row groups), 20 statements "
             "per catalog: 9 of 28 general templates and 11 of 19 one-table-in-several-roles templates (a table scanned 2-4 times: "
             "scalar / IN / EXISTS subquery expression in the WHERE or SELECT list of an earlier or later UNION branch, left-join "
             "input or derived table, with pruned scans of the same table elsewhere, the all-columns scan reading a column no pruned "
             "scan reads; self-joins; both visiting orders and all-in-the-middle), random constants: DISTINCT with WHERE-only columns, inner / left / comma / "
             "three-table / self joins, COUNT(DISTINCT), IN / NOT IN / EXISTS / NOT EXISTS, scalar subqueries (WHERE, SELECT list, "
             "correlated, same table other column, HAVING, CASE, under UNION, under a window), IN under OR, CTEs, UNION [ALL], window "
             "functions, derived aggregates; each on 2 cluster sizes (quick) / 5 (thorough). Judged: the engine's GatherPlan equals "
             "the model's collect_scans on the engine's own optimized plan (eq); the plan covers every table/column the optimized plan "
             "reads incl. subquery plans (Coq rebinds) and the gathered re-run equals ctx.sql with the same column names (ok); "
             "distinct = (catalog, statement) on the gather path",
        assumptions=["the optimized plan's scan projections hold every column the main tree's expressions use (projection pushdown), "
                     "so covering the scans covers the statement; the real re-run (execute_gathered) tests exactly that",
                     "scan-filter columns are matched to table fields by name (as gather.rs does); generated column names are unique "
                     "across the catalog",
                     "the single-node answer is the oracle of the executed comparison"])


def replay(ctx, obj):
    c = obj.get("case") or obj.get("first_differing_case")
    g = {"tables": c["tables"], "statements": [(c["kind"], c["sql"])]}
    judged = evaluate(ctx, [g], lambda gi: c["nodes"])
    for case, eq, ok, status, info, cl in judged:
        print(status, "impl_equals_model:", eq, "spec_ok:", ok, "classes:", cl); print(json.dumps(info)[:2000])
    return 0 if all(j[1] and j[2] for j in judged) else 1
