"""C27 — GROUPING SETS, ROLLUP and CUBE match their SQL definition. Theorems: coq/theories/Props/C27.v.
Correspondence: generated `SELECT [DISTINCT] cols, aggregates, GROUPING(..) FROM t [WHERE p] GROUP BY ROLLUP|CUBE|GROUPING SETS`
statements over 1-3 grouping columns with NULLs (and -1) in the grouped data run on the real engine (harness `sql`); the
binder's desugaring (UNION ALL of Project(Aggregate)) evaluated with the engine semantics and the definitional union of
`group_rows` with NULL padding are computed in Coq on the same table; results are compared as bags of rows.
SELECT DISTINCT must deduplicate the union (the model wraps the plan in Distinct)."""
import vlib, sqlgen, sqlq, sqlwin, relcheck, relgen
from fractions import Fraction

REQ = "From QV Require Import C27.Model."
CLASSES = ["dominated-null"]
AGG_SQL = {"ACountStar": "COUNT(*)", "ACount": "COUNT({})", "ASum": "SUM({})", "AMin": "MIN({})", "AMax": "MAX({})", "AAvg": "AVG({})"}

def gen_table(rng):
    n = rng.choice([0, 1, 2, 3, 5, 8, 12])
    null_p = rng.choice([0.0, 0.2, 0.3, 0.5])
    t2 = rng.choice(["i64", "date", "str", "bool"])
    types = ["i64", "str", t2, "i64", "f64"]
    pools = {"i64": [1, 2, 2, -1, -1, 0], "str": ["u", "v", ""], "date": [("d", 0), ("d", -1), ("d", 365)], "bool": [True, False]}
    def v(pool):
        return None if rng.random() < null_p else rng.choice(pool)
    rows = [[v(pools["i64"]), v(pools["str"]), v(pools[t2]), v([1, 2, 3, 10, -4]), v([("q", Fraction(x, 2)) for x in (1, 3, -5, 8)])]
            for _ in range(n)]
    sizes, left = [], n
    while left > 0 and rng.random() < 0.6:
        k = rng.randint(1, left)
        sizes.append(k); left -= k
    return {"name": "t", "types": types, "rows": rows, "batch_sizes": sizes or None}

def gen_query(rng, t):
    k = rng.choice([1, 2, 2, 3, 3])
    cols = rng.sample([0, 1, 2], k)
    kind = rng.choice(["rollup", "cube", "sets"])
    if kind == "sets":
        sets = []
        for _ in range(rng.randint(1, 4)):
            s = [c for c in cols if rng.random() < 0.5]
            rng.shuffle(s)
            if s and rng.random() < 0.05:
                s.append(s[0])
            sets.append(s)
        gs = ("sets", sets)
        used = sorted({c for s in sets for c in s})
    else:
        gs = (kind, cols)
        used = list(cols)
    items = []
    sel = list(used)
    rng.shuffle(sel)
    for c in sel:
        if rng.random() < 0.85:
            items.append(("group", c))
    if rng.random() < 0.03:
        items.append(("group", rng.choice([0, 1, 2])))          # possibly not a grouping column: bind error expected
    for _ in range(rng.choice([0, 1, 1, 1, 1, 2, 2, 3, 3])):
        fn = rng.choice(["ACountStar", "ACount", "ASum", "ASum", "AMin", "AMax", "AAvg"])
        arg = rng.choice([3, 3, 4, 0]) if fn != "ACountStar" else 3
        items.append(("agg", fn, arg))
    if used and rng.random() < 0.6:
        for _ in range(rng.choice([1, 1, 2])):
            args = [rng.choice(used) for _ in range(rng.randint(1, min(3, len(used) + 1)))]
            items.insert(rng.randint(0, len(items)), ("grouping", args))
    if not items:
        items.append(("agg", "ACountStar", 3))
    distinct = rng.random() < 0.1
    pred = relgen.gen_pred(rng, t["types"], depth=0) if rng.random() < 0.25 else None
    return {"gs": gs, "items": items, "distinct": distinct, "pred": pred}

def to_sql(q):
    names = [f"c{i}" for i in range(5)]
    sel = []
    for j, it in enumerate(q["items"]):
        if it[0] == "group":
            sel.append(f"c{it[1]} AS o{j}")
        elif it[0] == "agg":
            sel.append(AGG_SQL[it[1]].format(f"c{it[2]}") + f" AS o{j}")
        else:
            sel.append(f"GROUPING({', '.join(names[a] for a in it[1])}) AS o{j}")
    s = f"SELECT {'DISTINCT ' if q['distinct'] else ''}{', '.join(sel)} FROM t"
    if q["pred"] is not None:
        s += f" WHERE {sqlgen.e_sql(q['pred'])}"
    return s + " GROUP BY " + sqlwin.gs_sql(q["gs"], names)

def to_coq(q):
    inp = ("table", 0, "t", 5)
    if q["pred"] is not None:
        inp = ("filter", inp, q["pred"])
    its = []
    for it in q["items"]:
        if it[0] == "group":
            its.append(f"IGroup {it[1]}%nat")
        elif it[0] == "agg":
            its.append(f"IAgg {it[1]} (ECol {it[2]}%nat)")
        else:
            its.append(f"IGrouping {sqlwin.natl(it[1])}")
    return f"(mkGS {sqlq.to_coq(inp)} {sqlwin.gs_coq(q['gs'])} [{'; '.join(its)}] {sqlgen.bl(q['distinct'])})"

def gen_group(rng, nq):
    t = gen_table(rng)
    return {"table": t, "queries": [gen_query(rng, t) for _ in range(nq)]}

def evaluate(ctx, groups, tag="c27"):
    cases, prelude, terms, results = [], [], [], []
    for gi, g in enumerate(groups):
        t = g["table"]
        cases.append({"tables": [relcheck.table_spec(t["name"], t["types"], t["rows"], t.get("batch_sizes"))],
                      "queries": [to_sql(q) for q in g["queries"]]})
        prelude.append(f"Definition db{gi} : list rel := {sqlq.db_coq([t['rows']])}.")
        for q in g["queries"]:
            terms.append(f"gscheck db{gi} {to_coq(q)}")
    outs = vlib.run_harness("sql", cases, timeout=3000)
    vals = vlib.coq_eval_list(REQ, "\n".join(prelude), terms, tag, shard=40)
    k = 0
    for gi, g in enumerate(groups):
        for qi, q in enumerate(g["queries"]):
            model_enc, spec_enc, bits = vals[k]; k += 1
            res = outs[gi].get("results", [{}] * len(g["queries"]))[qi] if "results" in outs[gi] else {"err": str(outs[gi])}
            r = {"group": gi, "sql": cases[gi]["queries"][qi], "kind": q["gs"][0], "q": q,
                 "table": {"types": g["table"]["types"], "rows": [[str(c) for c in row] for row in g["table"]["rows"]]},
                 "classes": [c for c, b in zip(CLASSES, bits) if b]}
            results.append(r)
            model_none, spec_none = model_enc == [[[99]]], spec_enc == [[[99]]]
            r["model_error"], r["spec_error"] = model_none, spec_none
            if "ok" not in res:
                r.update(status="engine-panic" if "panic" in res else "engine-error", detail=res)
                continue
            impl = sqlq.rows_from_impl(res["ok"])
            model = None if model_none else [[sqlgen.dec(c) for c in row] for row in model_enc]
            spec = None if spec_none else [[sqlgen.dec(c) for c in row] for row in spec_enc]
            r["status"] = "ran"
            r["n_spec_rows"] = len(spec or [])
            r["eq"] = model is not None and sqlq.bag_equal(impl, model)
            r["ok"] = spec is not None and sqlq.bag_equal(impl, spec)
            if not (r["eq"] and r["ok"]):
                r["detail"] = {"impl": res["ok"]["rows"][:40], "model": [[str(c) for c in row] for row in (model or [])[:40]],
                               "spec": [[str(c) for c in row] for row in (spec or [])[:40]]}
    return results

def run(ctx):
    proved = ctx.prove()
    groups = [gen_group(ctx.rng, 8) for _ in range(ctx.n(40, 600))]
    results = evaluate(ctx, groups)
    ran = [r for r in results if r["status"] == "ran"]
    errs = [r for r in results if r["status"] != "ran"]
    ctx.cov["evaluations"] = len(results)
    ctx.cov["engine_errors_excluded"] = len(errs)
    msgs = {}
    for r in errs:
        m = str(r["detail"].get("err", r["detail"]))[:90]
        msgs[m] = msgs.get(m, 0) + 1
    ctx.cov["engine_error_messages"] = msgs
    ctx.cov["engine_panics"] = sum(1 for r in errs if r["status"] == "engine-panic")
    for r in errs:
        if r["status"] == "engine-panic":
            ctx.violation({"kind": "engine panicked on a grouping-set query", "case": r}, found_input=True)
    def cls(c):
        if c["classes"] and all(ctx.is_known(k) for k in c["classes"]):
            for k in c["classes"]:
                ctx.known_finding(k, ctx.known[k])
            return c["classes"][0]
        return None
    ctx.judge([{k: r[k] for k in ("sql", "table", "classes", "kind")} for r in ran], [r["eq"] for r in ran], [r["ok"] for r in ran],
              classify=cls, impl_outs=[r.get("detail") for r in ran])
    if results and len(errs) > 0.3 * len(results):
        ctx.violation({"kind": "correspondence-degraded: too many statements fail with an engine error", "errors": len(errs),
                       "total": len(results), "messages": msgs}, found_input=False, tag="errors")
    kinds = {}
    for r in results:
        kinds[r["kind"]] = kinds.get(r["kind"], 0) + 1
    ctx.cov["input_distribution"] = {"by_form": kinds, "groups": len(groups),
        "with_grouping_fn": sum(1 for r in results if any(it[0] == "grouping" for it in r["q"]["items"])),
        "with_distinct": sum(1 for r in results if r["q"]["distinct"]), "with_where": sum(1 for r in results if r["q"]["pred"] is not None),
        "tables_with_null_keys": sum(1 for g in groups if any(v is None for r in g["table"]["rows"] for v in r[:3])),
        "in_known_class": {c: sum(1 for r in ran if c in r["classes"]) for c in CLASSES}}
    ctx.cov["distinct_nontrivial"] = len({r["sql"] + str(r["group"]) for r in ran if r["n_spec_rows"] > 1})
    for r in ran[:4]:
        ctx.sample({"sql": r["sql"], "table": r["table"], "classes": r["classes"]})
    if not proved and not ctx.violations:
        ctx.proof_broken_violation(f"{len(results)} grouping-set statements")
    return ctx.finish(rule="tables of 0-12 rows (3 grouping columns int/str/int|date|str|bool with NULL density 0-50% and -1 keys, int and "
                           "double measures, random batch splits) x ROLLUP / CUBE / GROUPING SETS (1-4 sets incl. empty and duplicate "
                           "sets) over 1-3 columns x COUNT/SUM/MIN/MAX/AVG x GROUPING(1-3 args) x optional WHERE / DISTINCT; "
                           "non-trivial = definitional result has > 1 row, distinct by (statement, table)",
                      assumptions=["doubles are exact dyadic values"])

def replay(ctx, obj):
    print("failing case:", obj.get("case")); return run(ctx)
