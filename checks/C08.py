"""C08 — Running out of memory budget never changes an answer. Theorems: coq/theories/Props/C08.v.
Correspondence: generated statements (sorts with ASC/DESC and NULLS FIRST/LAST keys over int/double/string/date, top-k, LIMIT/OFFSET,
inner/outer joins incl. i64 = i32 keys, GROUP BY with COUNT(*)/COUNT/SUM/AVG/MIN/MAX/COUNT(DISTINCT) over 1-3 keys of every type,
global aggregates, DISTINCT, UNION [ALL], sort over join / aggregate) over tables of 20-60, 300 and 1000 (thorough: 3000) rows in
several batches, executed with ExecutionContext::with_memory_limit(n) for the ladder
    64 B, 1 KB, 16 KB, 1 MB, unlimited
(harness c08 also reports MemoryPool::spilled() per statement, so the number of statements that REALLY spilled is measured).
Every configuration that returns rows is compared with the Gallina engine model and the SQL reference (evaluated once per
statement); under a memory limit an explicit engine error is accepted (and counted by message), a panic or a different answer is
not; the unlimited run must succeed whenever a limited run does."""
import re
import vlib, confcheck, confgen, sqlq

LADDER = [("64B", 64), ("1KB", 1024), ("16KB", 16384), ("1MB", 1 << 20), ("unlimited", None)]
SMALL_KINDS = [k for k in confgen.KINDS if k != "cross"] + ["sort", "topk", "sort-offset", "join", "agg"]
BIG_KINDS = ["filter", "join", "join", "join-outer", "agg", "agg", "agg-intkey", "agg-global", "agg-join", "distinct", "union",
             "union-mixed", "sort", "sort", "topk", "topk", "sort-offset", "sort-agg"]

HUGE_KINDS = ["join", "join-outer", "agg", "agg-intkey", "agg-join", "distinct", "union", "sort", "sort", "topk", "topk", "sort-offset",
              "sort-agg"]

def err_class(msg):
    m = str(msg)
    for pat, name in [("supports only INNER joins", "spilled join: only INNER supported"),
                      ("cannot evaluate an ON-clause filter", "spilled join: ON filter unsupported"),
                      ("Incompatible type", "spilled aggregate/union: mixed column types in a spill file"),
                      ("memory", "memory budget error"), ("spill", "spill I/O error")]:
        if pat in m:
            return name
    return "other: " + m[:80]

def run(ctx):
    proved = ctx.prove()
    rng = ctx.rng
    bases = []
    for n in ctx.n([20, 40, 60], [10, 20, 40, 60] * 6):
        ta, tb = confgen.gen_tables(rng, n, rng.choice([6, 15, 30]), null_p=rng.choice([0.0, 0.2, 0.4]))
        bases.append({"tables": [ta, tb], "queries": confgen.gen_queries(rng, ta, tb, SMALL_KINDS)})
    for _ in range(ctx.n(1, 4)):
        ta, tb = confgen.gen_tables(rng, 300, 80, null_p=0.2, kr=90, wide_str=True)
        bases.append({"tables": [ta, tb], "queries": confgen.gen_queries(rng, ta, tb, BIG_KINDS)})
    for _ in range(ctx.n(1, 3)):
        ta, tb = confgen.gen_tables(rng, ctx.n(1000, 1500), ctx.n(250, 400), null_p=0.15, kr=300, wide_str=True)
        bases.append({"tables": [ta, tb], "queries": confgen.gen_queries(rng, ta, tb, ctx.n(HUGE_KINDS, BIG_KINDS))})
    splits = {}
    def layout(bi, t):
        n = len(t["rows"])
        if (bi, t["name"]) not in splits:
            splits[(bi, t["name"])] = confgen.split(rng, n, 3, 12) if n <= 100 else confgen.split(rng, n, 40, 260)
        t["batch_sizes"] = splits[(bi, t["name"])] or None
        return t
    configs = [{"name": name, "layout": layout, "module": "c08", "extra": ({"memory_limit": lim} if lim else {})} for name, lim in LADDER]
    configs = configs[::-1]                                   # unlimited first: it is the baseline
    results, refs, timing = confcheck.run_ladder(ctx, "c08", bases, configs)
    ctx.cov["timing_s"] = timing
    for r in results:
        r["_spilled"] = r.get("spilled") or 0
    ran, errs, by_stmt = confcheck.judge(ctx, results, "unlimited",
                                         error_ok=lambda r: r["cfg"] != "unlimited" and r["status"] == "engine-error")
    # a limited run succeeded but the unlimited one failed: not covered by error_ok (the unlimited error is judged above)
    names = [c["name"] for c in configs]
    table = confcheck.per_config_table(results, names)
    spilled = {n: {"statements_that_spilled": 0, "bytes": 0, "by_kind": {}} for n in names}
    errors = {n: {} for n in names}
    err_text = {}
    for r in results:
        if r["status"] == "ran" and r["_spilled"] > 0:
            d = spilled[r["cfg"]]
            d["statements_that_spilled"] += 1
            d["bytes"] += r["_spilled"]
            k = r["kind"].split("(")[0]
            d["by_kind"][k] = d["by_kind"].get(k, 0) + 1
        if r["status"] != "ran":
            e = err_class(r["detail"])
            errors[r["cfg"]][e] = errors[r["cfg"]].get(e, 0) + 1
            err_text.setdefault(e, {"cfg": r["cfg"], "sql": r["sql"][:300], "message": str(r["detail"])[:400]})
    spilled_ok = sum(1 for r in results if r["status"] == "ran" and r["_spilled"] > 0 and r.get("ok"))
    kinds = {}
    for r in results:
        kinds[r["kind"]] = kinds.get(r["kind"], 0) + 1
    sort_keys = {"desc": 0, "nulls_first": 0, "nulls_last_explicit": 0, "fused_fetch": 0, "statements": 0}
    for (bi, qi), v in by_stmt.items():
        sh = confgen.sort_shape(v[0]["q"])
        if sh:
            sort_keys["statements"] += 1
            sort_keys["desc"] += 1 if any(k[1] for k in sh[0]) else 0
            sort_keys["nulls_first"] += 1 if any(k[2] is True for k in sh[0]) else 0
            sort_keys["nulls_last_explicit"] += 1 if any(k[2] is False for k in sh[0]) else 0
            sort_keys["fused_fetch"] += 1 if sh[1] is not None else 0
    all_cfg = list(by_stmt.values())
    ctx.cov["input_distribution"] = {
        "by_configuration": table, "spilled_by_configuration": spilled, "engine_errors_by_configuration_and_message": errors,
        "first_error_of_each_message_class": err_text,
        "statements_that_spilled_and_equal_the_reference": spilled_ok, "by_statement_kind": kinds, "base_tables": len(bases),
        "rows_per_table": sorted({len(b["tables"][0]["rows"]) for b in bases}), "order_by_statements": sort_keys,
        "statements_equal_reference_wherever_they_ran": sum(1 for v in all_cfg if all(x.get("ok") for x in v if x["status"] == "ran")),
        "statements_with_an_accepted_error_under_some_limit": sum(1 for v in all_cfg if any(x["status"] != "ran" and x["cfg"] != "unlimited" for x in v))}
    ctx.cov["not_covered"] = ["runs longer than MERGE_BUFFER_ROWS (8192 rows) and more than 8 runs of that size: tables stay below a few "
                              "thousand rows (the multi-pass merge with fan-in 8 IS reached: the 64 B limit makes every batch a run)",
                              "spill-directory I/O failures"]
    ctx.cov["distinct_nontrivial"] = len({(r["cfg"], r["base"], r["sql"]) for r in ran if r["n_sql_rows"] > 0})
    for r in [x for x in results if x["cfg"] == "64B"][:3]:
        ctx.sample({"sql": r["sql"], "cfg": r["cfg"], "spilled_bytes": r["_spilled"], "status": r["status"],
                    "rows_ta": bases[r["base"]]["tables"][0]["rows"][:5]})
    if not proved and not ctx.violations:
        ctx.proof_broken_violation(f"{len(results)} statement x memory-limit evaluations")
    return ctx.finish(
        rule="tables ta(i64?, i32?, f64?, str?, date?, i64) of 20-60, 300 and 1000/3000 rows in several batches, tb(i32?, str?, i64) of "
             "6-800 rows; statement shapes of lib/confgen.py (sort / top-k / offset weighted up); every statement x 5 memory limits; "
             "non-trivial = reference result non-empty, distinct by (limit, table, statement)",
        assumptions=["doubles are exact dyadic values (sums exact in binary64; AVG compared to 1e-12 relative)",
                     "a statement 'really spilled' when MemoryPool::spilled() grew during it (what QueryMetrics.spill_metrics reports)",
                     "an explicit error under a memory limit is accepted by the property; its message classes are listed in evidence"])

def replay(ctx, obj):
    print("failing case:", obj.get("case")); return run(ctx)
