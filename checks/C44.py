"""C44 — VALUES lists produce their rows. Theorems: coq/theories/Props/C44.v. Correspondence: VALUES lists of
1..n rows x 1..m columns of literals (all six types) and NULLs, used directly, in FROM with filter / projection /
aggregation / ORDER BY, and as a set-operation operand."""
import vlib, relcheck, relgen, sqlgen
from relgen import col, lit

def gen_values(rng):
    m = rng.randint(1, 4)
    n = rng.choice([1, 1, 2, 3, 5, 9])
    types = [rng.choice(["i64", "i64", "str", "f64", "date", "bool"]) for _ in range(m)]
    rows = []
    for i in range(n):
        r = []
        for t in types:
            v = relgen.gen_value(rng, t, null_p=0.3)
            r.append(lit(v))
        rows.append(r)
    # a column that is NULL in every row has no type the engine can infer: keep at least one non-NULL per column
    for j, t in enumerate(types):
        if all(r[j][1] is None for r in rows):
            rows[rng.randrange(n)][j] = lit(relgen.gen_value(rng, t, null_p=0.0))
    return ("values", m, rows), types

def gen_query(rng):
    v, types = gen_values(rng)
    k = rng.random()
    if k < 0.35:
        return v, "direct"
    if k < 0.5:
        # atoms only: OR/NOT over NULLs belongs to C02 (class dominated-null), not to VALUES
        return ("filter", v, relgen.gen_pred(rng, types, 0)), "from+where"
    if k < 0.6:
        i = rng.randrange(len(types))
        return ("project", v, [col(i), ("isnull", col(i))]), "from+project"
    if k < 0.72:
        i = rng.randrange(len(types))
        if types[i] == "bool":
            return ("agg", v, [], [("ACountStar", lit(1)), ("ACount", col(i))]), "from+global-agg"
        return ("agg", v, [col(i)], [("ACountStar", lit(1))]), "from+group"
    if k < 0.85:
        i = rng.randrange(len(types))
        return ("sort", v, [(col(i), rng.random() < 0.5, rng.choice([None, True, False]))]), "from+order"
    return ("setop", "SUnion", True, v, v), "union-all"

def run(ctx):
    proved = ctx.prove()
    n = ctx.n(240, 4000)
    qs = []
    for _ in range(n):
        q, kind = gen_query(ctx.rng)
        qs.append({"q": q, "kind": kind})
    groups = [{"tables": [], "queries": qs[i:i + 40]} for i in range(0, len(qs), 40)]
    results = relcheck.run_rel(ctx, "c44", groups)
    ran, errs = relcheck.judge_rel(ctx, results)
    kinds = {}
    for r in results:
        kinds[r["kind"]] = kinds.get(r["kind"], 0) + 1
    ctx.cov["input_distribution"] = {"by_use": kinds,
        "rows_hist": sorted({len(x["q"][2]) if x["q"][0] == "values" else -1 for x in qs})}
    ctx.cov["distinct_nontrivial"] = len({r["sql"] for r in ran if r["n_sql_rows"] > 0})
    for r in results[:3]:
        ctx.sample({"sql": r["sql"]})
    if not proved and not ctx.violations:
        ctx.proof_broken_violation(f"{len(results)} VALUES statements")
    return ctx.finish(rule="VALUES lists (1-9 rows x 1-4 columns; int/str/double/date/bool literals, 30% NULLs, every column has a "
                           "non-NULL cell) used directly, under WHERE / projection / GROUP BY / ORDER BY in FROM, and in UNION ALL; "
                           "non-trivial = reference result non-empty, distinct by statement text",
                      assumptions=["a column that is NULL in every row is excluded (its type is not inferable)"])

def replay(ctx, obj):
    print("failing case:", obj.get("case")); return run(ctx)
