"""C10 — a failing fragment fails the whole query. Theorems: coq/theories/Props/C10.v.
Correspondence (harness bin c10):
  A. the REAL execute_any_distributed under a fault-injecting FragmentTransport: every fault kind at every remote shard,
     alone and in pairs, for scatter (Concat / TwoPhase / TopN) and gather shapes;
  B. the IPC decoder: one shard's real reply cut at EVERY byte offset and handed to the coordinator without a length
     check, against the framing model (accepted exactly on [message boundary, +3]);
  C. two REAL nodes (distributed::spawn) with a truncating TCP proxy in front of the worker: POST /sql?distributed=1 with the
     real /fragment reply cut at EVERY byte offset, a flipped framing byte, a 500, a zeroed body, the worker down."""
import json
import vlib
from vlib import zlit, zlist

REQ = "From QV Require Import C16.Model C10.Model."
KINDS = ["transport", "http", "digest", "garbage", "empty", "zero_len", "neg_len"]

PRELUDE = """
Definition hdr (body : list Z) := [([67;111;110;116;101;110;116;45;76;101;110;103;116;104], dec (zlen body))].
Definition reply (st : Z) (body : list Z) : wresp := mkW [72;84;84;80;47;49;46;49] st [79;75] (hdr body) body.
Definition good : wresp := reply 200 (stream [syn_msg 8 0; syn_msg 8 16]).
Definition outcome_of (kind : Z) : outcome :=
  if kind =? 0 then OOk good
  else if kind =? 1 then OTransport
  else if kind =? 2 then OHttp (reply 500 [123; 125])
  else if kind =? 3 then ODigest (reply 400 [123; 125])
  else if kind =? 4 then OCorrupt (reply 200 [116; 104; 105; 115; 32; 105; 115; 32; 110; 111; 116; 32; 105; 112; 99; 33])
  else if kind =? 5 then OCorrupt (reply 200 [])
  else if kind =? 6 then OCorrupt (reply 200 (repeat 0 64))
  else OCorrupt (reply 200 (254 :: tl (stream [syn_msg 8 0; syn_msg 8 16]))).
Definition failed (r : option (list msg)) : bool := match r with None => true | Some _ => false end.
(* [model: does the query fail; is some asked shard faulty] *)
Definition judge_faults (kinds : list Z) : list bool :=
  let outs := map outcome_of kinds in
  [failed (collect_outcomes syn_body_len (Some (Batches [])) outs); existsb (is_fault syn_body_len) outs].
Fixpoint assoc_meta (tbl : list (list Z * Z)) (meta : list Z) : option Z :=
  match tbl with [] => None | (m, b) :: t => if list_eqb Z.eqb m meta then Some b else assoc_meta t meta end.
Definition code (r : shard_result) : Z := match r with Failed => -1 | Batches bs => Z.of_nat (length bs) end.
"""
KIND_CODE = {"ok": 0, "transport": 1, "http": 2, "digest": 3, "garbage": 4, "empty": 5, "zero_len": 6, "neg_len": 7}


def tables(rng, nrows=None):
    n = nrows or rng.choice([17, 23, 31])
    rows = [[i, None if rng.random() < 0.15 else rng.randint(0, 4), rng.randint(0, 2), rng.choice(["x", "y", None, "zz", "é"])] for i in range(n)]
    t = {"name": "t", "cols": [["c0", "i64"], ["c1", "i64"], ["c2", "i64"], ["c3", "str"]], "rows": rows,
         "parquet": {"files": [n // 2], "row_group": rng.choice([2, 3, 4])}}
    u = {"name": "u", "cols": [["k", "i64"], ["v", "str"]], "rows": [[0, "p"], [1, "q"], [1, "r"], [None, "n"], [2, "z"], [2, "w"]],
         "parquet": {"files": [3], "row_group": 1}}
    return [t, u]


SHAPES = [
    ("concat", "SELECT c0, c3 FROM t WHERE c1 >= 1"),
    ("two_phase", "SELECT c2, COUNT(*), SUM(c1), AVG(c1), MIN(c3) FROM t GROUP BY c2"),
    ("two_phase_global", "SELECT COUNT(*), MAX(c0) FROM t WHERE c1 IS NOT NULL"),
    ("top_n", "SELECT c0, c1 FROM t ORDER BY c1 DESC NULLS LAST, c0 LIMIT 4 OFFSET 1"),
    ("concat_join", "SELECT t.c0, u.v FROM t JOIN u ON t.c2 = u.k WHERE t.c0 < 12"),
    ("gather", "SELECT DISTINCT c2, c3 FROM t"),
    ("gather_join", "SELECT COUNT(DISTINCT t.c1), COUNT(DISTINCT u.v) FROM t JOIN u ON t.c2 = u.k"),
]


def rows_canon(res):
    return sorted(json.dumps(r, sort_keys=True) for r in res["ok"]["rows"])


def gen_fault_cases(rng, quick):
    cases = []
    tb = tables(rng)
    for name, sql in SHAPES:
        for n in ([rng.choice([2, 3, 4])] if quick else [2, 3, 4, 6]):
            self_at = rng.randrange(n)
            remote = [i for i in range(n) if i != self_at]
            singles = [(i, k) for i in remote for k in KINDS]
            if quick:   # every kind once, at a random remote shard (the thorough tier: every kind at every shard)
                singles = [(rng.choice(remote), k) for k in KINDS]
            for i, k in singles:
                cases.append({"mode": "inject", "tables": tb, "sql": sql, "nodes": n, "self_at": self_at, "shape": name,
                              "faults": {str(i): {"kind": k}}})
            if len(remote) >= 2:
                for _ in range(2 if quick else 12):
                    a, b = rng.sample(remote, 2)
                    cases.append({"mode": "inject", "tables": tb, "sql": sql, "nodes": n, "self_at": self_at, "shape": name,
                                  "faults": {str(a): {"kind": rng.choice(KINDS)}, str(b): {"kind": rng.choice(KINDS + ["ok"])}}})
            # a fault aimed at the initiator's own index is never sent over the transport: the run must succeed
            cases.append({"mode": "inject", "tables": tb, "sql": sql, "nodes": n, "self_at": self_at, "shape": name,
                          "faults": {str(self_at): {"kind": rng.choice(KINDS)}}})
    return cases


def batch_fault_cases(fcases):
    """group the fault maps by cluster so the harness builds every cluster once: [(harness case, [fault case...])]"""
    groups = {}
    for c in fcases:
        key = (c["sql"], c["nodes"], c["self_at"])
        groups.setdefault(key, []).append(c)
    out = []
    for key, cs in groups.items():
        h = dict(cs[0]); h["faults"] = {}; h["fault_list"] = [c["faults"] for c in cs]
        out.append((h, cs))
    return out


def judge_fault_case(c, o):
    """-> (kinds asked in shard order as codes, impl failed?, why-not-ok list)"""
    why = []
    if "baseline" not in o:
        return None, None, ["harness: " + str(o)[:300]]
    asked = sorted({r["shard"] for r in o["replies"]})
    kinds = [KIND_CODE[c["faults"].get(str(i), {}).get("kind", "ok")] for i in asked]
    base, single, faulty = o["baseline"], o["single"], o["faulty"]
    if "ok" not in base or "ok" not in single or rows_canon(base) != rows_canon(single):
        why.append("fault-free distributed run differs from the single node: " + str(base)[:200])
    failed = "ok" not in faulty
    if "panic" in faulty:
        why.append("panic: " + faulty["panic"])
    if not failed and "ok" in base and rows_canon(faulty) != rows_canon(base):
        why.append("PARTIAL OR WRONG ANSWER under fault: " + str(faulty)[:300])
    return kinds, failed, why


def run(ctx):
    proved = ctx.prove()
    rng = ctx.rng
    # ---------------- A: fault injection ----------------
    fcases = gen_fault_cases(rng, ctx.quick)
    # ---------------- B: cut sweep without a length check ----------------
    sweeps = []
    for name, sql in ([SHAPES[0]] if ctx.quick else SHAPES[:6]):
        sweeps.append({"mode": "inject", "tables": tables(rng), "sql": sql, "nodes": 3, "self_at": 0, "shape": name, "faults": {},
                       "sweep": {"shard": 1}})
    # ---------------- C: real nodes behind a truncating proxy ----------------
    pcases = []
    proxy_shapes = [("concat_narrow", "SELECT c0 FROM t WHERE c1 >= 1")] if ctx.quick else [SHAPES[0], SHAPES[1], SHAPES[3], SHAPES[5]]
    for name, sql in proxy_shapes:
        pcases.append({"mode": "proxy", "tables": tables(rng, 17 if ctx.quick else 61), "sql": sql, "shape": name, "cuts": "all",
                       "flips": [0, 1, 2], "extra": True})
    if ctx.quick:
        # two more shapes with sampled offsets: every 13th byte (the thorough tier cuts them exhaustively)
        for name, sql in [SHAPES[1], SHAPES[5]]:
            pcases.append({"mode": "proxy", "tables": tables(rng, 17), "sql": sql, "shape": name, "cuts": list(range(0, 2600, 13)),
                           "flips": [0], "extra": False})
    batches = batch_fault_cases(fcases)
    outs = vlib.run_harness("c10", [h for h, _ in batches] + sweeps + pcases, timeout=3000)
    fcases, fouts = [], []
    for (h, cs), o in zip(batches, outs):
        for i, c in enumerate(cs):
            fcases.append(c)
            fo = {k: o.get(k) for k in ("single", "baseline", "replies", "batch_rows") if k in o}
            fl = o.get("faulty_list") or []
            if i < len(fl):
                fo["faulty"] = fl[i]
            else:
                fo = {"harness_error": str(o)[:300]}
            fouts.append(fo)
    souts, pouts = outs[len(batches):len(batches) + len(sweeps)], outs[len(batches) + len(sweeps):]

    cases, eq, ok, impl = [], [], [], []
    # A
    terms, keep = [], []
    for c, o in zip(fcases, fouts):
        kinds, failed, why = judge_fault_case(c, o)
        if kinds is None:
            cases.append(c); eq.append(False); ok.append(False); impl.append({"why": why}); continue
        terms.append(f"judge_faults {zlist(kinds)}")
        keep.append((c, o, kinds, failed, why))
    vals = vlib.coq_eval_list(REQ, PRELUDE, terms, "c10a", shard=300)
    n_effective = 0
    for (c, o, kinds, failed, why), v in zip(keep, vals):
        model_failed, some_fault = v
        n_effective += bool(some_fault)
        slim = {k: c[k] for k in ("sql", "nodes", "self_at", "shape", "faults", "tables", "mode")}
        cases.append(slim); eq.append(failed == model_failed)
        ok.append((failed == some_fault) and not why)      # spec_ok: some asked shard faulty <=> the query fails
        impl.append({"why": why, "asked_kinds": kinds, "faulty": str(o["faulty"])[:300]})
    # B
    sw_terms = []
    for c, o in zip(sweeps, souts):
        rep = [r for r in o.get("replies", []) if r["shard"] == 1]
        sizes = "[" + "; ".join(f"({m}, {b})" for m, b in rep[0]["frames"]) + "]" if rep else "[]"
        sw_terms.append(f"map (cut_decodes {sizes}) (seq 0 {(rep[0]['len'] if rep else 0) + 1})")
    sw_vals = vlib.coq_eval_list(REQ, PRELUDE, sw_terms, "c10b", shard=1, timeout=1500) if sw_terms else []
    accepted_offsets = {}
    for c, o, mv in zip(sweeps, souts, sw_vals):
        why = []
        sw = o.get("sweep", [])
        brows = next((b["rows"] for b in o.get("batch_rows", []) if b["shard"] == 1), [])
        base_rows = len(o["baseline"]["ok"]["rows"]) if "ok" in o.get("baseline", {}) else None
        same = len(sw) == len(mv) and len(sw) > 0
        acc = []
        concat = c["shape"].startswith("concat")
        for (k, err, rows), m in zip(sw, mv):
            if err != (m is None):
                same = False
            if not err:
                acc.append(k)
                if concat and m is not None and base_rows is not None and rows != base_rows - sum(brows[m:]):
                    same = False; why.append(f"cut at {k}: {rows} rows, the model's {m} batches give {base_rows - sum(brows[m:])}")
        accepted_offsets[c["shape"]] = acc
        slim = {k: c[k] for k in ("sql", "nodes", "self_at", "shape", "sweep", "tables", "mode")}
        cases.append(slim); eq.append(same); ok.append(same)
        impl.append({"why": why, "accepted_offsets": acc, "frames": o.get("replies")})
    # C
    pterms = []
    for c, o in zip(pcases, pouts):
        if c["cuts"] == "all" and "reply_bytes" in o:
            raw = o["reply_bytes"]; h = o["head_len"]; body = raw[h:]
            tbl, p = [], 0
            for m, b in o["frames"]:
                tbl.append((body[p + 8:p + 8 + m], b)); p += 8 + m + b
            tblt = "[" + "; ".join(f"({zlist(m)}, {b})" for m, b in tbl) + "]"
            pterms.append(f"(let raw := {zlist(raw)} in map (fun k => code (recv (assoc_meta {tblt}) (firstn k raw))) (seq 0 {len(raw) + 1}))")
        else:
            pterms.append("[0]")
    pvals = vlib.coq_eval_list(REQ, PRELUDE, pterms, "c10c", shard=1, timeout=2400)
    proxy_cov = []
    for c, o, mv in zip(pcases, pouts, pvals):
        why = []
        same = True
        if "cuts" not in o or o.get("baseline", {}).get("status") != 200:
            why.append("proxy run did not come up: " + str(o)[:300]); same = False
        else:
            L = o["reply_len"]
            want = sorted(json.dumps(r, sort_keys=True) for r in json.loads(o["local"]["body"] or "[]"))
            got = sorted(json.dumps(r, sort_keys=True) for r in json.loads(o["baseline"]["body"] or "[]"))
            if want != got:
                why.append("uncut distributed answer differs from the local one")
            if o["fragments_per_query"] != 1:
                why.append(f"expected exactly one /fragment per statement, saw {o['fragments_per_query']}")
            # every reply has its own length (the elapsed-time header varies): a cut is k < that reply's length
            bad = [(k, actual) for k, st, err, _, actual in o["cuts"] if k < actual and not err]
            if bad:
                why.append(f"reply cut at (offset, reply length) {bad[:10]} was ANSWERED (status 200): partial answer")
            for k, st, err, body, actual in o["cuts"]:
                if k >= actual and (err or sorted(json.dumps(r, sort_keys=True) for r in json.loads(body or "[]")) != want):
                    why.append(f"an uncut reply (offset {k} >= length {actual}) did not give the complete answer"); break
            if c["cuts"] == "all":
                if [x[0] for x in o["cuts"]][:L] != list(range(L)):
                    why.append("not every offset was cut")
                model = mv
                if len(model) != L + 1 or any(m != -1 for m in model[:L]) or model[L] != len(o["frames"]) - 1:
                    same = False; why.append("model: recv of some strict prefix is not Failed, or the full reply does not decode")
            for j, st, err in o["flips"]:
                if not err:
                    why.append(f"reply with framing byte {j} flipped was answered")
            ex = o.get("extra", {})
            for k in ("http500", "zero_body"):
                if k in ex and ex[k][0] == 200:
                    why.append(f"{k}: answered")
            if "worker_down" in ex and ex["worker_down"][0] == 200:
                body = sorted(json.dumps(r, sort_keys=True) for r in json.loads(ex["worker_down"][1] + ("" if ex["worker_down"][1].endswith("]") else "")) ) if ex["worker_down"][1].endswith("]") else None
                if body is not None and body != want:
                    why.append("worker down: a partial answer was returned")
            proxy_cov.append({"shape": c["shape"], "reply_len": L, "head_len": o["head_len"], "frames": o["frames"],
                              "offsets_cut": len(o["cuts"]), "extra": {k: v[0] for k, v in ex.items()}})
        slim = {k: c[k] for k in ("sql", "shape", "tables", "mode", "flips", "extra")}
        slim["cuts"] = c["cuts"] if c["cuts"] == "all" else "sampled"
        cases.append(slim); eq.append(same); ok.append(not why); impl.append({"why": why})

    ctx.cov["evaluations"] = len(fcases) + sum(len(o.get("sweep", [])) for o in souts) + sum(len(o.get("cuts", [])) + len(o.get("flips", [])) + len(o.get("extra", {})) for o in pouts)
    ctx.cov["distinct_nontrivial"] = len({json.dumps([c["sql"], c["nodes"], c["self_at"], c["faults"]], sort_keys=True) for c in fcases}) \
        + sum(len(o.get("sweep", [])) for o in souts) + sum(len(o.get("cuts", [])) for o in pouts)
    ctx.cov["input_distribution"] = {
        "fault_cases": len(fcases), "fault_cases_with_an_effective_fault": n_effective,
        "fault_kinds": KINDS, "shapes": [s for s, _ in SHAPES],
        "ipc_cut_sweeps": {c["shape"]: len(o.get("sweep", [])) for c, o in zip(sweeps, souts)},
        "ipc_cut_accepted_offsets_without_length_check": accepted_offsets,
        "proxy_runs": proxy_cov}
    ctx.sample({"fault_case": {k: fcases[0][k] for k in ("sql", "nodes", "self_at", "faults")}, "faulty": str(fouts[0].get("faulty"))[:300]})
    if pouts and "cuts" in pouts[0]:
        ctx.sample({"proxy": pcases[0]["sql"], "reply_len": pouts[0]["reply_len"], "head": pouts[0]["reply_head"],
                    "cut_statuses": sorted({x[1] for x in pouts[0]["cuts"]})})
    ctx.judge(cases, eq, ok, impl_outs=impl)
    if not proved and not ctx.violations:
        ctx.proof_broken_violation("fault injection at every shard, IPC cut sweep and proxy truncation at every byte: no partial answer")
    return ctx.finish(
        rule="A: 7 statement shapes (Concat, TwoPhase grouped/global, TopN, Concat over a join, Gather, Gather of two tables) x cluster "
             "sizes x every remote shard x {transport error, HTTP 500, digest mismatch (real execute_fragment refusal), garbage / "
             "empty / zeroed / negative-length payload}, alone and in pairs, plus a fault aimed at the initiator's own (never sent) "
             "shard; spec: some asked shard faulty <=> the query fails, and a query that answers gives the fault-free answer. "
             "B: one shard's real IPC reply cut at every byte offset and handed on without a length check vs the framing model. "
             "C: two real nodes, the worker behind a TCP proxy: the real /fragment reply cut at every byte offset (exhaustive for one "
             "shape quick / four thorough; two more shapes every 9th offset quick), flipped framing bytes, HTTP 500, zeroed body, "
             "worker down; spec: every cut is an error, never a 200. distinct = every (statement, cluster, fault map) and every offset",
        assumptions=["HTTP layer: C16's parse_response_checked is the client as it is now (3b03f26); re-evaluated in Coq on the real "
                     "reply bytes at every cut in part C",
                     "the flatbuffer metadata is opaque in the model (body_len); for part C it is the table of the real reply's "
                     "metadata blocks, for part B synthetic metadata of the real sizes",
                     "part B's cuts are NOT a real fault of the shipped transport (the Content-Length check catches them first): they "
                     "document that the IPC decoder alone accepts EOF without the end-of-stream marker (C10_eof_without_eos_accepted)",
                     "a corrupt payload means structurally corrupt (framing / metadata); flipped data bytes carry no checksum"])


def replay(ctx, obj):
    c = obj.get("case") or obj.get("first_differing_case")
    outs = vlib.run_harness("c10", [c])
    o = outs[0]
    o.pop("reply_bytes", None)
    print(json.dumps(o)[:3000])
    if c.get("mode") == "inject" and "sweep" not in c:
        kinds, failed, why = judge_fault_case(c, o)
        print("asked kinds:", kinds, "query failed:", failed, "why:", why)
        some = any(k != 0 for k in kinds or [])
        return 0 if (failed == some and not why) else 1
    return 1
