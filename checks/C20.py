"""C20 — IPC sidecars are invisible and safe to build concurrently.
Theorems: coq/theories/Props/C20.v (publication protocol as a small-step system).
Correspondence (PARTIAL BY NATURE: real schedules are sampled, OS rename/unlink atomicity is assumed):
  A. the same answers with QE_IPC_CACHE=0 / unset without sidecar / 1 building / 1 reusing / unset reusing, each in its own process;
  B. races: 1..8 builder processes (QE_IPC_CACHE=1, several threads each) and reader processes (unset) started on a barrier
     over a table without sidecars; every answer is classed ok-correct / error / WRONG and the classes are compared with the
     outcome set the model allows for that many processes (C20.Model.allowed_outcomes): WRONG never, error only across processes;
  C. directed: the intermediate state of the model's cross-process interleaving (fresh marker, one row-group file unlinked) is
     put on disk and read: the model says Error (not wrong, not a silent fallback)."""
import json
import vlib

REQ = "From QV Require Import Base.Util C20.Model."
PRELUDE = """
Definition allows (o : outcome) (nprocs : nat) : bool := existsb (outcome_eqb o) (allowed_outcomes nprocs).
(* the directed state: a published sidecar of n row groups whose last file is gone, one Auto-mode reader *)
Definition directed (n : nat) : option gstate :=
  grun n (repeat (0, 0, 0)%nat (n + 1))
       (mkG (Some (mkDir (Some want) (repeat Complete (n - 1) ++ [Absent]))) [init_proc [false]]).
Definition directed_is (n : nat) (o : outcome) : bool :=
  match directed n with Some g => list_eqb outcome_eqb (outcomes g) [o] | None => false end.
"""

QUERIES = [
    "SELECT count(*), sum(a), min(b), max(b), count(b) FROM t",
    "SELECT a, b FROM t WHERE a >= {hi} ORDER BY a",
    "SELECT b, count(*) FROM t WHERE b < 40 GROUP BY b",
]
SQUERIES = [
    "SELECT s, count(*), sum(b) FROM t GROUP BY s",
    "SELECT a, s FROM t WHERE a < 7",
    "SELECT count(*) FROM t WHERE s = 's3'",
]


def gen_case(rng, smode, builders, quick):
    nrows = rng.choice([3000, 6000]) if smode != "wide" else 12000
    rg = rng.choice([1000, 1500]) if smode != "wide" else 6000
    files = rng.choice([1, 2])
    qs = [q.format(hi=nrows - 9) for q in QUERIES] + (SQUERIES if smode != "none" else [])
    rounds = [{"builders": 1, "readers": 0, "threads": rng.choice([2, 4]), "iters": 2}]
    rounds.append({"builders": builders, "readers": rng.choice([1, 2]) if builders > 1 else rng.choice([0, 1]),
                   "threads": rng.choice([1, 2]), "iters": 2})
    rounds.append({"builders": rng.choice([2, 4, 6]), "readers": 2, "threads": 2, "iters": 2})
    if not quick:
        rounds.append({"builders": rng.randint(1, 8), "readers": rng.randint(0, 3), "threads": rng.choice([1, 2, 3]), "iters": 2})
    return {"table": {"nrows": nrows, "rg": rg, "files": files, "smode": smode, "null_every": rng.choice([0, 7, 2])},
            "queries": qs, "rounds": rounds, "directed_missing_rg": True}


def nrg_per_file(c):
    t = c["table"]
    per = -(-t["nrows"] // t["files"])
    return -(-per // t["rg"])


def case_term(c):
    rs = "; ".join(f"[allows Error {r['builders'] + r['readers']}%nat; allows Truncated {r['builders'] + r['readers']}%nat]" for r in c["rounds"])
    n = nrg_per_file(c)
    return f"([directed_is {n}%nat Error; directed_is {n}%nat Truncated], [{rs}])"


def evaluate(ctx, cases):
    outs = vlib.run_harness("c20", cases, timeout=3000)
    vals = vlib.coq_eval_list(REQ, PRELUDE, [case_term(c) for c in cases], "c20")
    eq, ok = [], []
    for c, o, v in zip(cases, outs, vals):
        (dir_err, dir_trunc), rounds = v
        notes = []
        a_flags = ["auto_absent", "built", "reused", "auto_reused", "off_again", "baseline_ok"]
        invisible = all(o.get(k) is True for k in a_flags) and bool(o.get("after_build", {}).get("whole")) \
            and o.get("after_build", {}).get("published") == c["table"]["files"]
        if not invisible:
            notes.append("answers differ between sidecar modes: " + json.dumps({k: o.get(k) for k in a_flags + ["after_build"]}))
        d = o.get("directed") or {}
        # model: a reader that opens the missing file gets Error, never wrong data (queries pruned to other row
        # groups do not open it and answer correctly)
        directed_matches = bool(dir_err and not dir_trunc and d.get("removed") and d.get("wrong") == 0 and d.get("error", 0) > 0)
        if not directed_matches:
            notes.append("directed state (fresh marker, missing row-group file): model says Error; implementation: " + json.dumps(d)[:300])
        e_ok, s_ok, any_err = True, True, False
        for r, (allow_err, allow_wrong) in zip(o.get("rounds") or [{}] * len(rounds), rounds):
            wrong, err = r.get("wrong", 1), r.get("error", 0)
            whole = bool(r.get("after", {}).get("whole"))
            if wrong or allow_wrong or not whole:
                e_ok, s_ok = False, False
                notes.append("WRONG answer or broken published sidecar in a race: " + json.dumps(r)[:400])
            if err and not allow_err:
                e_ok = False
                notes.append("error within ONE process (model: impossible): " + json.dumps(r)[:400])
            if err:
                s_ok, any_err = False, True
        if len(o.get("rounds") or []) != len(rounds):
            e_ok = s_ok = False
        c["_notes"] = notes
        c["_errors_seen"] = any_err
        eq.append(bool(invisible and directed_matches and e_ok))
        ok.append(bool(invisible and s_ok))
    return outs, eq, ok


def classify(c):
    # decided by the shape of the run: more than one process shares the sidecar
    return "cross-process-partial" if any(r["builders"] + r["readers"] >= 2 for r in c["rounds"]) else None


def run(ctx):
    proved = ctx.prove()
    if ctx.quick:
        plan = [("dict", 3), ("plain", 8), ("none", 5)]
    else:
        plan = [(s, k) for k in range(1, 9) for s in ("dict", "plain", "wide", "none")]
    cases = [gen_case(ctx.rng, s, k, ctx.quick) for s, k in plan]
    if not proved:
        cases += [gen_case(ctx.rng, s, k, True) for s, k in [("dict", 6), ("wide", 4)]]
    outs, eq, ok = evaluate(ctx, cases)
    n_ans = sum(r.get("ok", 0) + r.get("error", 0) + r.get("wrong", 0) for o in outs for r in (o.get("rounds") or []))
    ctx.cov["evaluations"] = n_ans + 6 * sum(len(c["queries"]) for c in cases)
    ctx.cov["distinct_nontrivial"] = len(set(json.dumps([c["table"], c["rounds"]]) for c in cases))
    ctx.cov["input_distribution"] = {
        "tables": [c["table"] for c in cases],
        "race_rounds": [[(r["builders"], r["readers"], r["threads"]) for r in c["rounds"]] for c in cases],
        "race_answers": {"ok_correct": sum(r.get("ok", 0) for o in outs for r in (o.get("rounds") or [])),
                         "error": sum(r.get("error", 0) for o in outs for r in (o.get("rounds") or [])),
                         "WRONG": sum(r.get("wrong", 0) for o in outs for r in (o.get("rounds") or []))},
        "builder_process_counts": sorted(set(r["builders"] for c in cases for r in c["rounds"])),
        "cases_where_a_reader_hit_a_missing_file": sum(1 for c in cases if c.get("_errors_seen")),
        "partial": "real schedules are sampled, not enumerated; the model's reachable outcome set is compared with the classes seen",
    }
    for c, o in list(zip(cases, outs))[:2]:
        ctx.sample({"case": {k: v for k, v in c.items() if not k.startswith("_")},
                    "impl": {k: v for k, v in o.items() if k != "baseline"}})
    ctx.judge(cases, eq, ok, classify=classify, impl_outs=[{k: v for k, v in o.items() if k != "baseline"} for o in outs])
    if not proved and not ctx.violations:
        ctx.proof_broken_violation(f"{len(cases)} race configurations, no wrong answer and no single-process error observed")
    return ctx.finish(
        rule="tables: 3000-12000 rows x 1-2 files x 2-6 row groups, string column dictionary-eligible / dictionary disabled / "
             ">4096 distinct per row group / absent, NULLs every 0/2/7 rows; 5-6 queries (global aggregate, filtered scan, GROUP BY, "
             "string equality); per table: 6 one-process answers under QE_IPC_CACHE 0/unset/1, one directed partial-sidecar state, "
             "race rounds of (builders 1..8, readers 0..3, threads 1..4) started on a barrier; evaluations = answers compared",
        assumptions=["rename(2) of the staging directory is atomic and unlink leaves open/mapped files readable (POSIX)",
                     "distinct processes have distinct pids (staging directories are per pid)",
                     "remove_dir_all(final) completes when no other process interferes",
                     "Arrow IPC write/read round-trips the row group (checked by the answers only)",
                     "PARTIAL: schedules are whatever the OS produced in this run; absence of WRONG is evidence, not proof, for the real system "
                     "(the proof is about the model)"])


def replay(ctx, obj):
    c = obj.get("case") or obj.get("first_differing_case")
    c = {k: v for k, v in c.items() if not k.startswith("_")}
    outs, eq, ok = evaluate(ctx, [c])
    o = dict(outs[0]); o.pop("baseline", None)
    print("impl_output:", json.dumps(o)[:3000])
    print("notes:", c["_notes"])
    print("impl_equals_model:", eq[0], "spec_ok:", ok[0], "(races are re-sampled: a schedule-dependent error may not recur)")
    return 0 if ok[0] and eq[0] else 1
