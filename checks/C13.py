"""C13 — shard scans reassemble the table. Theorems: coq/theories/Props/C13.v. Correspondence: the real splits_of /
assign_lpt / shard_context / ShardedParquetTable (through the ordinary local planner and at provider level) for every
node of 1..8, over multi-file multi-row-group Parquet tables with sub-row-group ranges, vs C13.Model."""
import os, re
import vlib
from vlib import zlit, zlist, natlist, bytes_of_str

REQ = "From QV Require Import Base.Util C12.Model C13.Model."

PRELUDE = """
Definition piece_b (e : list Z * Z * list Z) (s : split) : bool := bytes_eqb (s_file s) (e_file e) && (s_rg s =? e_idx e).
Fixpoint contig_b (o : Z) (ps : list split) : bool :=
  match ps with [] => true | s :: t => (s_off s =? o) && (0 <? s_rows s) && contig_b (o + s_rows s) t end.
Definition cover_b (tbl : @ptable Z) (splits : list split) : bool :=
  forallb (fun e => let ps := isort (fun a b => s_off a <=? s_off b) (filter (piece_b e) splits) in
                    contig_b 0 ps && (zsum (map s_rows ps) =? Z.of_nat (length (e_rows e)))) (rg_entries tbl)
  && forallb (fun s => existsb (fun e => piece_b e s) (rg_entries tbl)) splits.
"""

COLS = [["id", "i64"], ["a", "i64"], ["b", "i64"], ["s", "str"]]


def layout(n, files, rg):
    """mirror of sqlutil::write_parquet: [(file name, [[row index...] per row group])]"""
    pts, lo = [], 0
    for k in files or []:
        k = min(k, n - lo)
        pts.append((lo, lo + k)); lo += k
    if lo < n or not pts:
        pts.append((lo, n))
    out = []
    for i, (a, b) in enumerate(pts):
        rgs, x = [], a
        while x < b:
            e = min(x + rg, b)
            rgs.append(list(range(x, e))); x = e
        out.append((f"part-{i:03d}.parquet", rgs))
    return out


def gen_pred(rng, n):
    k = rng.random()
    if k < 0.15:
        lo = rng.randint(0, max(n, 1)); hi = lo + rng.randint(0, max(n // 2, 1))
        return f"id BETWEEN {lo} AND {hi}"          # sorted ids: row-group statistics prune whole row groups
    if k < 0.25:
        return "a > 100"                               # matches nothing: every row group pruned
    if k < 0.35:
        return "a IS NULL"
    if k < 0.45:
        return f"s = '{rng.choice(['x', 'y', 'zz', 'nope'])}'"
    if k < 0.55:
        return "a < b"
    if k < 0.65:
        return f"(a = {rng.randint(0, 4)} OR s = '{rng.choice(['x', 'y'])}')"
    if k < 0.75:
        return f"id >= {rng.randint(0, max(n, 1))}"
    if k < 0.85:
        return f"(a >= {rng.randint(0, 4)} AND b IS NOT NULL)"
    if k < 0.92:
        return f"id IN ({', '.join(str(rng.randint(0, max(n, 1))) for _ in range(3))})"
    return f"b <> {rng.randint(0, 3)}"


def gen_case(rng, quick):
    n = rng.choice([0, 1, 2, 3, 5, 8, 13, 21, 34] if quick else [0, 1, 2, 3, 5, 8, 13, 21, 34, 60, 150, 400])
    rows = []
    for i in range(n):
        rows.append([i, None if rng.random() < 0.2 else rng.randint(0, 4), None if rng.random() < 0.2 else rng.randint(0, 3),
                     None if rng.random() < 0.1 else rng.choice(["x", "y", "zz", "", "é"])])
    nfiles = rng.choice([1, 1, 2, 3, 4])
    files = []
    left = n
    for _ in range(nfiles - 1):
        k = rng.randint(0, left); files.append(k); left -= k
    rg = rng.choice([1, 2, 3, 5, 8, 1000])
    t = {"name": "t", "cols": COLS, "rows": rows, "parquet": {"files": files, "row_group": rg, "statistics": rng.random() < 0.85}}
    tables = [t]
    if rng.random() < 0.3:
        tables.append({"name": "u", "cols": [["k", "i64"]], "rows": [[1], [2]], "parquet": {"files": [], "row_group": 10}})
    nodes = rng.randint(1, 8)
    lay = layout(n, files, rg)
    custom = None
    enum_nodes = None
    mode = rng.choice(["lpt", "lpt", "custom", "custom", "lpt-fine"])
    if mode == "custom":
        pieces = []
        for _, rgs in lay:
            for g in rgs:
                left, ps = len(g), []
                while left > 0:
                    k = rng.randint(1, left) if rng.random() < 0.7 else left
                    ps.append(k); left -= k
                pieces.append(ps)
        total = sum(len(p) for p in pieces)
        style = rng.choice(["uniform", "one-node", "round-robin", "skewed"])
        if style == "uniform":
            owner = [rng.randrange(nodes) for _ in range(total)]
        elif style == "one-node":
            o = rng.randrange(nodes); owner = [o] * total
        elif style == "round-robin":
            owner = [i % nodes for i in range(total)]
        else:
            owner = [min(int(rng.random() ** 3 * nodes), nodes - 1) for _ in range(total)]
        custom = {"pieces": pieces, "owner": owner}
    elif mode == "lpt-fine":
        enum_nodes = rng.choice([8, 16, 64])     # enumerate as a bigger cluster would: finer sub-row-group ranges
    pred = gen_pred(rng, n)
    proj = rng.choice(["a", "s, b", "b, a, s", "s", "a, a", "*"])
    queries = ["SELECT id FROM t", f"SELECT id FROM t WHERE {pred}", f"SELECT {proj} FROM t WHERE {pred}",
               "SELECT COUNT(*) FROM t", f"SELECT {proj} FROM t"]
    c = {"tables": tables, "table": "t", "nodes": nodes, "custom": custom, "queries": queries,
         "scans": [None, [0], [3, 1]], "mode": mode, "pred": pred, "proj": proj}
    if enum_nodes:
        c["enum_nodes"] = enum_nodes
    return c


def tbl_term(c):
    t = c["tables"][0]
    lay = layout(len(t["rows"]), t["parquet"]["files"], t["parquet"]["row_group"])
    return "[" + "; ".join(f"({bytes_of_str(name)}, [" + "; ".join(zlist(g) for g in rgs) + "])" for name, rgs in lay) + "]"


def ids_of(res):
    if not isinstance(res, dict) or "ok" not in res:
        return None
    return [r[0] for r in res["ok"]["rows"]]


def canon(rows):
    return sorted(repr(r) for r in rows)


def case_terms(c, o):
    """one Coq term per id-carrying query (q0: no filter, q1: filter)"""
    if "splits" not in o:
        return None
    splits = "[" + "; ".join(f"(mkSplit {bytes_of_str('t')} {bytes_of_str(s[0])} {zlit(s[1])} {zlit(s[2])} {zlit(s[3])} {zlit(s[4])})"
                             for s in o["splits"]) + "]"
    pn = "[" + "; ".join(natlist(l) for l in o["per_node"]) + "]"
    terms = []
    for qi, sat in ((0, None), (1, ids_of(o["full"][1]))):
        impl = []
        for sh in o["shards"]:
            ids = ids_of(sh["q"][qi]) if "q" in sh else None
            if ids is None:
                return None
            impl.append(ids)
        if qi == 1 and sat is None:
            return None
        satt = "None" if sat is None else f"(Some {zlist(sat)})"
        implt = "[" + "; ".join(zlist(l) for l in impl) + "]"
        terms.append(f"(let tbl := {tbl_term(c)} in let splits := {splits} in let pn := {pn} in let impl := {implt} in "
                     f"[answers_eqb impl (model_answers tbl {satt} splits pn); spec_ok tbl {satt} impl; cover_b tbl splits; "
                     f"is_partition (length splits) pn])")
    return terms


def python_side_ok(c, o):
    """everything the property demands that is not expressed through row ids"""
    why = []
    t = c["tables"][0]
    n = len(t["rows"])
    sh = o["shards"]
    if any("q" not in s for s in sh):
        return ["a shard context could not be built: " + str([s.get("err") for s in sh if "q" not in s])]
    if not all(s["pf_none"] for s in sh):
        why.append("a shard provider exposes parquet_files()")
    if not all(s["other_tables_whole"] for s in sh):
        why.append("another table of the catalog changed in the shard context")
    if not o["out_of_range_index_is_error"]:
        why.append("shard index out of range did not fail")
    for qi in (2, 4):     # projected answers without the id column: bag union vs the full-table answer
        full = o["full"][qi]
        if "ok" not in full:
            why.append(f"full scan failed: {full}"); continue
        union = []
        for s in sh:
            if "ok" not in s["q"][qi]:
                why.append(f"shard query failed: {s['q'][qi]}"); break
            union += s["q"][qi]["ok"]["rows"]
        else:
            if canon(union) != canon(full["ok"]["rows"]):
                why.append(f"q{qi}: union of shard answers differs from the full-table answer")
    # COUNT(*): a whole-file fast path would count the whole files on every node
    cnt = []
    for s in sh:
        r = s["q"][3]
        if "ok" not in r:
            why.append(f"COUNT(*) failed on a shard: {r}"); break
        cnt.append(r["ok"]["rows"][0][0])
    else:
        if cnt != [s["stats"][0] for s in sh] or sum(cnt) != n:
            why.append(f"per-shard COUNT(*) {cnt} is not the assigned row count {[s['stats'][0] for s in sh]} / total {n}")
    if any(s["stat_rows"] is not None and s["stat_rows"] != s["stats"][0] for s in sh):
        why.append("shard statistics row_count is not the assigned row count")
    # provider-level scan (no planner): projection None / [id] / [s, a]
    for k, cols in enumerate([None, [0], [3, 1]]):
        union = []
        for s in sh:
            r = s["scan"][k]
            if "rows" not in r:
                why.append(f"provider scan failed: {r}"); break
            union += r["rows"]
        else:
            # reference: the unsharded provider's scan with the same projection (parquet's ProjectionMask returns
            # the selected columns in schema order, for the shard and for the whole table alike), and the table itself
            base = o["base_scans"][k]
            want = [row if cols is None else [row[j] for j in sorted(cols)] for row in t["rows"]]
            if "rows" not in base or canon(union) != canon(base["rows"]) or canon(union) != canon(want):
                why.append(f"provider-level scan (projection {cols}): union of shards is not the table")
    return why


SRC_FACTS = [
    ("src/distributed/shard.rs", r"fn parquet_files\(&self\)\s*->\s*Option<Vec<std::path::PathBuf>>\s*\{\s*None\s*\}",
     "ShardedParquetTable::parquet_files is literally None"),
    ("src/physical/planner.rs", r"if let Some\(files\) = provider\.parquet_files\(\) \{\s*let exec = crate::physical::operators::StreamingParquetScanExec::try_new\(",
     "the streaming whole-file scan is built only under `if let Some(files) = provider.parquet_files()`"),
    ("src/physical/planner.rs", r"self\.try_extract_parquet_source\(&node\.input\)[^;]*?\{[^}]*?MorselAggregateExec::new\(",
     "MorselAggregateExec is built only from try_extract_parquet_source"),
]


def source_facts():
    bad = []
    for f, rx, what in SRC_FACTS:
        txt = open(os.path.join(vlib.REPO, f)).read()
        if not re.search(rx, txt, re.S):
            bad.append(what)
    p = open(os.path.join(vlib.REPO, "src/physical/planner.rs")).read()
    m = re.search(r"fn try_extract_parquet_source\(.*?\n    \}\n", p, re.S)
    body = m.group(0) if m else ""
    lets = re.findall(r"let files = ([^;]*);", body)
    if not lets or any(x.strip() != "provider.parquet_files()?" for x in lets):
        bad.append("try_extract_parquet_source obtains files only through provider.parquet_files()?")
    if len(re.findall(r"StreamingParquetScanExec::try_new\(", p)) != 1 or len(re.findall(r"MorselAggregateExec::new\(", p)) != 1:
        bad.append("exactly one construction site each for the streaming scan and the morsel aggregate")
    sh = open(os.path.join(vlib.REPO, "src/distributed/shard.rs")).read()
    impl = sh[sh.find("impl TableProvider for ShardedParquetTable"):sh.find("#[cfg(test)]")]
    fns = set(re.findall(r"fn (\w+)\(", impl))
    if fns != {"schema", "scan", "scan_with_filter", "statistics", "parquet_files"}:
        bad.append(f"ShardedParquetTable implements exactly schema/scan/scan_with_filter/statistics/parquet_files (found {sorted(fns)})")
    return bad


def evaluate(ctx, cases):
    outs = vlib.run_harness("c13", cases)
    terms, owner = [], []
    for i, (c, o) in enumerate(zip(cases, outs)):
        ts = case_terms(c, o)
        if ts:
            for t in ts:
                terms.append(t); owner.append(i)
    vals = vlib.coq_eval_list(REQ, PRELUDE, terms, "c13", shard=60)
    eq = [True] * len(cases); ok = [True] * len(cases); hyp = [True] * len(cases); seen = [0] * len(cases)
    for i, v in zip(owner, vals):
        eq[i] = eq[i] and v[0]; ok[i] = ok[i] and v[1]; hyp[i] = hyp[i] and v[2] and v[3]; seen[i] += 1
    why = []
    for i, (c, o) in enumerate(zip(cases, outs)):
        w = []
        if seen[i] != 2:
            w.append("harness/engine error: " + str(o)[:300]); eq[i] = False
        else:
            w = python_side_ok(c, o)
        if not hyp[i]:
            w.append("theorem hypotheses (cover / partition) do not hold of the splits handed to shard_context")
        if w:
            ok[i] = False
        why.append(w)
    return outs, eq, ok, why


def run(ctx):
    proved = ctx.prove()
    facts_bad = source_facts()
    n = ctx.n(150, 4000)
    cases = [gen_case(ctx.rng, ctx.quick) for _ in range(n)]
    if not proved:
        cases += [gen_case(ctx.rng, ctx.quick) for _ in range(300)]
    outs, eq, ok, why = evaluate(ctx, cases)
    ctx.cov["evaluations"] = len(cases)
    nontriv = set()
    subrg = 0
    pushed = 0
    for c, o in zip(cases, outs):
        if "splits" not in o:
            continue
        sub = any(s[2] > 0 for s in o["splits"])
        subrg += sub
        pushed += bool(o["pushed"][1])
        if len(o["splits"]) >= 2 and c["nodes"] >= 2:
            nontriv.add(repr((c["nodes"], o["splits"], o["per_node"], c["pred"], c["proj"])))
    ctx.cov["distinct_nontrivial"] = len(nontriv)
    ctx.cov["input_distribution"] = {
        "nodes": sorted(set(c["nodes"] for c in cases)), "modes": {m: sum(1 for c in cases if c["mode"] == m) for m in ("lpt", "lpt-fine", "custom")},
        "with_sub_row_group_ranges": subrg, "with_filter_pushed_into_scan": pushed,
        "with_idle_nodes": sum(1 for o in outs if "per_node" in o and any(not l for l in o["per_node"])),
        "zero_row_tables": sum(1 for c in cases if not c["tables"][0]["rows"]),
        "multi_file": sum(1 for c in cases if len(c["tables"][0]["parquet"]["files"]) >= 1),
        "max_splits": max((len(o.get("splits", [])) for o in outs), default=0)}
    ctx.cov["source_facts_reread"] = [w for _, _, w in SRC_FACTS] + ["try_extract_parquet_source / construction-site counts / provider method set"]
    for c, o in list(zip(cases, outs))[:2]:
        ctx.sample({"input": {k: c[k] for k in ("nodes", "mode", "pred", "proj", "custom")},
                    "parquet": c["tables"][0]["parquet"], "rows": len(c["tables"][0]["rows"]),
                    "splits": o.get("splits"), "per_node": o.get("per_node")})
    slim = [{k: v for k, v in c.items()} for c in cases]
    ctx.judge(slim, eq, ok, impl_outs=[{"why": w, "per_node": o.get("per_node"), "splits": o.get("splits")} for w, o in zip(why, outs)])
    if facts_bad:
        ctx.violation({"kind": "source fact no longer holds (shard_never_whole_file is a decision-table fact re-read from source)",
                       "facts": facts_bad}, found_input=False, tag="source-facts")
    if not proved and not ctx.violations:
        ctx.proof_broken_violation(f"{len(cases)} generated tables/assignments, none violates the executable spec")
    return ctx.finish(
        rule="random Parquet tables (0..34 rows quick / ..400 thorough, 1..4 files, row groups of 1..8 rows or one, with/without "
             "statistics) x 1..8 nodes x {engine enumeration + LPT, enumeration for a larger cluster (finer sub-row-group ranges), "
             "arbitrary re-cut of every row group + arbitrary owner map incl. idle nodes and one-node-owns-all}; per case 5 SELECTs "
             "through the planner on every shard context (ids with/without filter compared per node with the model and as a bag "
             "with the full table; projections without id as bags; COUNT(*) per shard = assigned rows) and 3 provider-level scans; "
             "non-trivial = >=2 splits and >=2 nodes, distinct by (nodes, splits, assignment, predicate, projection)",
        assumptions=["split coverage (C11 cover_exact) and partition (C12 assign_partition) are hypotheses of shards_reassemble; "
                     "both are evaluated as booleans on the splits actually handed to shard_context in every case",
                     "row-group pruning soundness (C05) is a hypothesis of shards_reassemble",
                     "arrow-rs RowSelection [skip k; select n] reads rows k..k+n of the row group (modelled as apply_sel)",
                     "the planner's whole-file paths are keyed off parquet_files(): re-read from source by regex each run, "
                     "and observed through COUNT(*) per shard"])


def replay(ctx, obj):
    c = obj.get("case") or obj.get("first_differing_case")
    outs, eq, ok, why = evaluate(ctx, [c])
    print("splits:", outs[0].get("splits")); print("per_node:", outs[0].get("per_node"))
    print("impl_equals_model:", eq[0], "spec_ok:", ok[0], "why:", why[0])
    return 0 if ok[0] and eq[0] else 1
