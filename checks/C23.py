"""C23 — subqueries follow SQL semantics, decorrelated or not. Theorems: coq/theories/Props/C23.v.
Correspondence: EXISTS / NOT EXISTS / IN / NOT IN / scalar (plain and aggregate) subqueries, uncorrelated or correlated
by 1-2 equalities, as top-level WHERE conjuncts, under NOT / OR, and in the SELECT list, over tables with NULLs on
either side, empty subquery results, duplicate correlation values and multi-batch inner tables. Every statement runs
twice on the engine (optimised plan = after SubqueryDecorrelation; bound unoptimised plan = row-by-row executor) and is
compared with the matching engine model (Sql/Sub.v: Decorr / Rowwise) and with the three-valued reference."""
import vlib, sqlsub, relgen
from relgen import col, lit

OUT_T = ["i64", "i64", "str"]
PAIRS = [(0, 0), (0, 1), (1, 0), (1, 1), (2, 2)]

def gen_val(rng, ty, null_p):
    if rng.random() < null_p:
        return None
    return rng.choice([0, 1, 1, 2, 3]) if ty == "i64" else rng.choice(["a", "b", "b"])

def gen_rows(rng, n, null_p):
    rows = [[gen_val(rng, t, null_p) for t in OUT_T] for _ in range(n)]
    if rows and rng.random() < 0.6:
        for _ in range(rng.randint(1, 2)):
            rows.insert(rng.randint(0, len(rows)), list(rng.choice(rows)))
    return rows

def gen_tables(rng):
    pt, ps = rng.choice([0.0, 0.2, 0.4]), rng.choice([0.0, 0.0, 0.25, 0.5])
    t = {"name": "t", "types": OUT_T, "rows": gen_rows(rng, rng.choice([1, 2, 3, 5, 7]), pt)}
    s = {"name": "s", "types": OUT_T, "rows": gen_rows(rng, rng.choice([0, 1, 2, 4, 6]), ps)}
    e = {"name": "e", "types": OUT_T, "rows": []}
    u = {"name": "u", "types": OUT_T, "rows": gen_rows(rng, rng.choice([2, 3, 5]), ps)}
    n, sizes = len(u["rows"]), []
    while sum(sizes) < n:
        sizes.append(rng.randint(1, 2))
    u["batch_sizes"] = sizes
    return [t, s, e, u]

def tbl(i, tables):
    return ("table", i, tables[i]["name"], 3)

def gen_sub(rng, tables, multibatch_ok):
    k = rng.random()
    i = 1 if k < 0.7 else (2 if k < 0.8 else (3 if multibatch_ok else 1))
    q = tbl(i, tables)
    if rng.random() < 0.35:
        j = rng.choice([0, 1])
        p = rng.choice([("cmp", rng.choice(["CGt", "CLe", "CNe"]), col(j), lit(rng.choice([0, 1, 2]))),
                        ("isnotnull", col(j)), ("isnull", col(j))])
        q = ("filter", q, p)
    return q

def gen_corr(rng):
    k = rng.choice([0, 1, 1, 2])
    return rng.sample(PAIRS, k)

def gen_atom(rng, tables):
    kind = rng.choice(["exists", "nexists", "in", "in", "nin", "nin", "cmp", "cmpagg", "cmpagg"])
    c = gen_corr(rng)
    if kind in ("exists", "nexists"):
        if not c and rng.random() < 0.7:
            c = [rng.choice(PAIRS)]
        return kind + f"-c{len(c)}", ("exists", kind == "nexists", gen_sub(rng, tables, True), c)
    if kind in ("in", "nin"):
        if rng.random() < 0.55:
            c = []
        if rng.random() < 0.2:
            i, v = 2, 2
        else:
            i, v = rng.choice([0, 1]), rng.choice([0, 1])
        e = col(i)
        if i != 2 and rng.random() < 0.15:
            e = ("arith", "AAdd", col(i), lit(1))
        return kind + f"-c{len(c)}", ("in", kind == "nin", e, gen_sub(rng, tables, True), v, c)
    op = rng.choice(["CEq", "CEq", "CNe", "CLt", "CLe", "CGt", "CGe"])
    e = rng.choice([col(0), col(1), lit(0), lit(1), lit(2)])
    flip = rng.random() < 0.3
    if kind == "cmp":
        # a correlation on the selected column itself makes the decorrelated plan fail to bind: keep it off that column
        v = rng.choice([0, 1])
        c = [(i, j) for i, j in c if j != v]
        sub = gen_sub(rng, tables, rng.random() < 0.4)
        return f"cmp-scalar-c{len(c)}", ("cmp", op, e, None, sub, v, c, flip)
    fn = rng.choice(["ACountStar", "ACount", "ASum", "ACountStar"])
    agg = (fn, col(rng.choice([0, 1])))
    if not c and rng.random() < 0.6:
        c = [rng.choice(PAIRS)]
    return f"cmp-{fn}-c{len(c)}", ("cmp", op, e, agg, gen_sub(rng, tables, True), 0, c, flip)

def gen_extra(rng):
    return ("expr", rng.choice([("cmp", rng.choice(["CGe", "CNe", "CLt"]), col(rng.choice([0, 1])), lit(rng.choice([0, 1, 2]))),
                                ("isnotnull", col(rng.choice([0, 1, 2]))), ("cmp", "CEq", col(2), lit("b"))]))

def gen_query(rng, tables):
    outer = tbl(0, tables)
    cols = [("expr", col(i)) for i in range(3)]
    kind, p = gen_atom(rng, tables)
    a = ("atom", p)
    pos = rng.choice(["top", "top", "top", "top+extra", "top+atom", "not", "or", "item", "item+where"])
    if pos == "top":
        return kind + "/top", ("sselect", outer, a, cols)
    if pos == "top+extra":
        w = ("and", a, gen_extra(rng)) if rng.random() < 0.5 else ("and", gen_extra(rng), a)
        return kind + "/top+extra", ("sselect", outer, w, cols)
    if pos == "top+atom":
        k2, p2 = gen_atom(rng, tables)
        if p2[0] == "cmp" and p2[3] is not None and p2[6]:
            # a correlated aggregate AFTER a positive EXISTS / IN over a FILTERED table: add_semi_join_reduction then takes
            # that filtered table (the Semi join's right side) as its reduction source and joins it to the aggregate's input
            # by bare column names. Not modelled (Sub.v models the reduction by the outer rows); the first subquery loses its
            # filter so that the modelled form of the reduction is the one that runs.
            if p[0] == "exists" and not p[1] and p[2][0] == "filter":
                p = ("exists", p[1], p[2][1], p[3]); a = ("atom", p)
            elif p[0] == "in" and not p[1] and p[3][0] == "filter":
                p = ("in", p[1], p[2], p[3][1], p[4], p[5]); a = ("atom", p)
        return kind + "&" + k2 + "/top", ("sselect", outer, ("and", a, ("atom", p2)), cols)
    if pos == "not":
        return kind + "/not", ("sselect", outer, ("not", a), cols)
    if pos == "or":
        return kind + "/or", ("sselect", outer, ("or", a, gen_extra(rng)), cols)
    # SELECT list: the predicate's value, or the scalar subquery itself
    if p[0] == "cmp" and rng.random() < 0.6:
        item = ("atom", ("scalar", p[3], p[4], p[5], p[6]))
        kind = kind.replace("cmp-", "scalar-")
    else:
        item = a
    w = sqlsub.TRUE_W if pos == "item" else gen_extra(rng)
    return kind + "/select", ("sselect", outer, w, cols[:2] + [item])

def gen_group(rng, nq):
    tables = gen_tables(rng)
    qs = []
    for _ in range(nq):
        kind, sq = gen_query(rng, tables)
        qs.append({"sq": sq, "kind": kind})
    return {"tables": tables, "queries": qs}

def run(ctx):
    proved = ctx.prove()
    groups = [gen_group(ctx.rng, 10) for _ in range(ctx.n(40, 400))]
    results = sqlsub.run_sub(ctx, "c23", groups)
    ran, errs = sqlsub.judge(ctx, results, groups)
    kinds, modes, cls = {}, {}, {}
    for r in results:
        k = r["kind"].split("/")[0].split("&")[0].rsplit("-c", 1)[0] + "/" + r["kind"].split("/")[-1]
        kinds[k] = kinds.get(k, 0) + 1
        modes[r["mode"] + ":" + r["status"]] = modes.get(r["mode"] + ":" + r["status"], 0) + 1
        for c in r["classes"]:
            cls[r["mode"] + ":" + c] = cls.get(r["mode"] + ":" + c, 0) + 1
    ctx.cov["input_distribution"] = {"by_form_and_position": kinds, "by_mode_and_status": modes, "in_class": cls,
        "groups": len(groups), "deviating_from_reference": sum(1 for r in ran if not r["ok"]),
        "reference_demands_error": sum(1 for r in ran if r["ref_err"])}
    ctx.cov["distinct_nontrivial"] = len({r["sql"] + str(r["group"]) + r["mode"] for r in ran if r["n_sql_rows"] > 0})
    for r in results[:3]:
        ctx.sample({"sql": r["sql"], "mode": r["mode"], "tables": groups[r["group"]]["tables"][:2], "classes": r["classes"]})
    if not proved and not ctx.violations:
        ctx.proof_broken_violation(f"{len(results)} subquery statement executions")
    return ctx.finish(rule="outer table t(c0,c1 int, c2 str) x inner tables s / e (empty) / u (split into 1-2 row batches), NULL "
                           "density 0-50%, duplicates; EXISTS / NOT EXISTS / IN / NOT IN / scalar (plain, COUNT(*), COUNT, SUM) "
                           "x correlation by 0-2 equalities x position (top-level conjunct, with another conjunct or a second "
                           "subquery, under NOT, under OR, SELECT list) x plan (optimised, bound unoptimised); non-trivial = "
                           "reference result non-empty, distinct by (statement, tables, plan)",
                      assumptions=["MIN/MAX subqueries are not generated (global MIN/MAX over no input returns the fold identity: "
                                   "recorded under C21)", "inner and outer relations use disjoint column names",
                                   "scans and filters keep record-batch boundaries (qbatches)"])

def replay(ctx, obj):
    print("failing case:", obj.get("case")); return run(ctx)
