"""C05 — statistics-based row-group skipping. Theorems: coq/theories/Props/C05.v.
Correspondence: real Parquet files written by parquet::ArrowWriter; the statistics the writer produced are fed
to the Coq model (might_match / definitely_matches) and compared with the engine's decisions; the Coq row
semantics is compared with the engine's row filter (PredicateEvaluator = the scan's RowFilter, and
evaluate_expr); soundness is checked directly on the real rows; answers over Parquet vs memory are compared."""
import datetime, struct
import vlib
from vlib import zlit, zlist, bytes_of_str, blit

REQ = "From QV Require Import Base.Util C05.Model."
PRELUDE = ("Definition E := (fun (_ : cmpop) (_ : bool) (_ : value) (_ : lit) => TN).\n"
           "Definition Ec := (fun (_ : cmpop) (_ _ : operand) (_ : row) => TN).\n"
           "Definition Ep := (fun (_ : nat) (_ : row) => TN).\n")

COLS = [["id", "i64"], ["a", "i64"], ["b", "i32"], ["f", "f64"], ["s", "str"], ["d", "date"]]
CIDX = {c[0]: i for i, c in enumerate(COLS)}
CTYPE = {c[0]: c[1] for c in COLS}
CT_COQ = {"i64": "TI64", "i32": "TI32", "f64": "TF64", "str": "TStr", "date": "TDate"}
P53 = 2 ** 53
CLASSES = ["nan", "negzero", "i32_trunc", "i64_beyond_2p53", "strict_or"]


def fbits(x):
    return struct.unpack("<Q", struct.pack("<d", x))[0]


NAN, NNAN = 0x7FF8000000000000, 0xFFF8000000000000
F_POOL = [fbits(x) for x in (0.0, -0.0, 1.0, -1.0, 0.5, 2.5, 5.0, -5.0, 1e300, -1e300, float("inf"), float("-inf"),
                             float(P53), float(P53 + 2), 5e-324, 100.0)] + [NAN, NNAN, NAN, 0x7FF0000000000001]
I64_POOL = [-3, -1, 0, 0, 1, 2, 3, 5, 10, 100, 2 ** 31 - 1, 2 ** 31, -2 ** 31, -2 ** 31 - 1, 2 ** 32 + 5, 2 ** 32 + 11,
            P53 - 1, P53, P53 + 1, P53 + 2, P53 + 3, -P53, -P53 - 1, 2 ** 63 - 1, -2 ** 63, 2 ** 62 + 1]
I32_POOL = [-3, -1, 0, 0, 1, 2, 3, 5, 10, 100, 2 ** 31 - 1, -2 ** 31, 2 ** 31 - 2]
STR_POOL = ["", "a", "abc", "abd", "b", "A", "z", "zz", "é", "日本", "\U0001F600", "a" * 70, "a" * 69 + "b", "ÿ" * 40, "é" * 33]
DATE_POOL = [-1, 0, 1, 5, 10, 20, 18000, 19000, 2 ** 31 - 1, -2 ** 31]
POOL = {"a": I64_POOL, "b": I32_POOL, "f": F_POOL, "s": STR_POOL, "d": DATE_POOL}


def cell(col, v):
    if v is None:
        return None
    return ["f", str(v)] if col == "f" else v


def gen_table(rng, n_rg):
    rgsize = rng.choice([1, 2, 3, 4])
    rows = []
    for g in range(n_rg):
        sub = {}
        for c in "abfsd":
            style = rng.choice(["const", "const", "narrow", "narrow", "wide", "allnull"])
            k = {"const": 1, "narrow": 2, "wide": 4, "allnull": 0}[style]
            vals = [rng.choice(POOL[c]) for _ in range(k)]
            if style == "allnull" or rng.random() < 0.25:
                vals.append(None)
            sub[c] = vals
        for _ in range(rgsize):
            rows.append([len(rows)] + [cell(c, rng.choice(sub[c])) for c in "abfsd"])
    return rows, rgsize


def near(rng, col, rows):
    """a literal value near what the table holds in `col` (so that pruning decisions flip)"""
    j = CIDX[col]
    present = [r[j] for r in rows if r[j] is not None]
    if present and rng.random() < 0.7:
        v = rng.choice(present)
        v = int(v[1]) if col == "f" else v
    else:
        v = rng.choice(POOL[col])
    if col in "abd" and rng.random() < 0.4:
        v += rng.choice([-1, 1])
    if col == "f" and rng.random() < 0.3 and (v & 0x7FFFFFFFFFFFFFFF) not in (0, 0x7FF0000000000000) and v not in (NAN, NNAN):
        v += rng.choice([-1, 1])
    return v


def clamp(v, bits):
    lo, hi = -2 ** (bits - 1), 2 ** (bits - 1) - 1
    return max(lo, min(hi, v))


def f32_image(bits64):
    x = struct.unpack("<d", struct.pack("<Q", bits64))[0]
    try:
        b32 = struct.unpack("<I", struct.pack("<f", x))[0]
    except OverflowError:
        b32 = 0x7F800000 if x > 0 else 0xFF800000
    return b32


def gen_lit(rng, col, rows):
    t = CTYPE[col]
    v = near(rng, col, rows)
    r = rng.random()
    if r < 0.04:
        return ["null"]
    if r < 0.06:
        return ["bool", True]
    if t == "i64":
        k = rng.choice(["i64"] * 8 + ["i32", "date", "ts", "f64", "f64", "str"])
    elif t == "i32":
        k = rng.choice(["i32"] * 4 + ["i64"] * 4 + ["date", "ts", "f64"])
    elif t == "f64":
        k = rng.choice(["f64"] * 8 + ["f32", "i64", "i64", "i32", "ts", "date"])
    elif t == "str":
        k = rng.choice(["str"] * 12 + ["i64"])
    else:
        k = rng.choice(["date"] * 6 + ["i64", "i32", "f64", "ts", "str"])
    if k == "str":
        return ["str", v if t == "str" else rng.choice(["1970-01-08", "10", "abc"])]
    if t == "str":
        return ["i64", rng.choice([0, 10])]
    if k in ("f64", "f32"):
        if t == "f64":
            b = v
        else:
            b = fbits(float(v)) if rng.random() < 0.7 else rng.choice(F_POOL)
        if k == "f32":
            return ["f32", str(f32_image(b))]
        return ["f64", str(b)]
    if t == "f64":
        x = struct.unpack("<d", struct.pack("<Q", v))[0]
        v = int(x) if x == x and abs(x) < 2 ** 62 else rng.choice(I64_POOL)
        if rng.random() < 0.3:
            v = rng.choice([0, 1, -1, P53 + 1])
    if k in ("i32", "date"):
        return [k, clamp(v, 32)]
    return [k, clamp(v, 64)]


OPS = ["eq", "ne", "lt", "le", "gt", "ge"]


def gen_leaf(rng, rows):
    col = rng.choice("abfsd" + "aaff")
    o = ["col", col]
    r = rng.random()
    if r < 0.04:
        return ["cmp", rng.choice(OPS), ["plus0", rng.choice("abf")], ["lit", gen_lit(rng, "a", rows)]]
    if r < 0.07:
        return ["cmp", rng.choice(OPS), o, ["col", col]]
    if r < 0.10:
        return ["isnull", col]
    if r < 0.12:
        return ["like", "s", rng.choice(["a%", "%", "é_"])]
    if r < 0.27:
        return ["between", o, ["lit", gen_lit(rng, col, rows)], ["lit", gen_lit(rng, col, rows)], rng.random() < 0.2]
    if r < 0.40:
        return ["in", o, [["lit", gen_lit(rng, col, rows)] for _ in range(rng.choice([0, 1, 2, 2, 3]))], rng.random() < 0.2]
    lit = ["lit", gen_lit(rng, col, rows)]
    if rng.random() < 0.3:
        return ["cmp", rng.choice(OPS), lit, o]
    return ["cmp", rng.choice(OPS), o, lit]


def gen_pred(rng, rows, depth):
    if depth == 0 or rng.random() < 0.45:
        return gen_leaf(rng, rows)
    k = rng.choice(["and", "or", "or", "not", "not"])
    if k == "not":
        return ["not", gen_pred(rng, rows, depth - 1)]
    return [k, gen_pred(rng, rows, depth - 1), gen_pred(rng, rows, depth - 1)]


# ---------------- SQL rendering (only literals the SQL front end can produce) ----------------
def sql_lit(l):
    k = l[0]
    if k == "i64":
        return str(l[1]) if l[1] > -2 ** 63 else None
    if k == "null":
        return "NULL"
    if k == "str":
        return "'" + l[1].replace("'", "''") + "'"
    if k == "date":
        if not (-100000 < l[1] < 100000):
            return None
        return "DATE '" + (datetime.date(1970, 1, 1) + datetime.timedelta(days=l[1])).isoformat() + "'"
    if k == "f64":
        x = struct.unpack("<d", struct.pack("<Q", int(l[1])))[0]
        if x != x or x in (float("inf"), float("-inf")) or abs(x) > 1e15 or (x != 0 and abs(x) < 1e-6):
            return None
        return repr(x)
    return None


def sql_op(o):
    if o[0] == "col":
        return o[1]
    if o[0] == "lit":
        return sql_lit(o[1])
    return f"({o[1]} + 0)"


SQLOP = {"eq": "=", "ne": "<>", "lt": "<", "le": "<=", "gt": ">", "ge": ">="}


def sql_pred(p):
    k = p[0]
    if k == "cmp":
        a, b = sql_op(p[2]), sql_op(p[3])
        return None if a is None or b is None else f"({a} {SQLOP[p[1]]} {b})"
    if k in ("and", "or"):
        a, b = sql_pred(p[1]), sql_pred(p[2])
        return None if a is None or b is None else f"({a} {k.upper()} {b})"
    if k == "not":
        a = sql_pred(p[1])
        return None if a is None else f"(NOT {a})"
    if k == "between":
        xs = [sql_op(x) for x in p[1:4]]
        return None if None in xs else f"({xs[0]} {'NOT ' if p[4] else ''}BETWEEN {xs[1]} AND {xs[2]})"
    if k == "in":
        xs = [sql_op(x) for x in p[2]]
        e = sql_op(p[1])
        if None in xs or e is None or not xs:
            return None
        return f"({e} {'NOT ' if p[3] else ''}IN ({', '.join(xs)}))"
    if k == "isnull":
        return f"({p[1]} IS NULL)"
    if k == "like":
        return f"({p[1]} LIKE '{p[2]}')"
    return None


# ---------------- Coq rendering ----------------
def coq_lit(l):
    k = l[0]
    if k == "null":
        return "LNull"
    if k == "bool":
        return f"(LBool {blit(l[1])})"
    if k in ("i64", "i32", "date", "ts"):
        return f"({ {'i64': 'LI64', 'i32': 'LI32', 'date': 'LDate', 'ts': 'LTs'}[k]} {zlit(l[1])})"
    if k == "f64":
        return f"(LF64 {int(l[1])})"
    if k == "f32":
        x = struct.unpack("<f", struct.pack("<I", int(l[1])))[0]
        return f"(LF32 {fbits(x)})"
    if k == "str":
        return f"(LStr {bytes_of_str(l[1])})"
    raise ValueError(k)


def coq_op(o, ids):
    if o[0] == "col":
        return f"(OCol {CIDX[o[1]]}%nat)"
    if o[0] == "lit":
        return f"(OLit {coq_lit(o[1])})"
    ids[0] += 1
    return f"(OOther {ids[0]}%nat)"


CMP = {"eq": "Eq'", "ne": "Ne'", "lt": "Lt'", "le": "Le'", "gt": "Gt'", "ge": "Ge'"}


def coq_pred(p, ids=None):
    ids = ids if ids is not None else [0]
    k = p[0]
    if k == "cmp":
        return f"(PCmp {CMP[p[1]]} {coq_op(p[2], ids)} {coq_op(p[3], ids)})"
    if k in ("and", "or"):
        return f"({'PAnd' if k == 'and' else 'POr'} {coq_pred(p[1], ids)} {coq_pred(p[2], ids)})"
    if k == "not":
        return f"(PNot {coq_pred(p[1], ids)})"
    if k == "between":
        return f"(PBetween {coq_op(p[1], ids)} {coq_op(p[2], ids)} {coq_op(p[3], ids)} {blit(p[4])})"
    if k == "in":
        return f"(PIn {coq_op(p[1], ids)} [{'; '.join(coq_op(x, ids) for x in p[2])}] {blit(p[3])})"
    ids[0] += 1
    return f"(POther {ids[0]}%nat)"      # isnull, like: every pruning path is the conservative default


def coq_val(t, c):
    if c is None:
        return "VNull"
    if t == "f64":
        return f"(VF64 {int(c[1])})"
    if t == "date":
        return f"(VDate {zlit(c[1] if isinstance(c, list) else c)})"
    if t == "str":
        return f"(VStr {bytes_of_str(c)})"
    return f"(VInt {zlit(c)})"


def coq_stat(s):
    t = s["t"]
    if t == "none":
        return "None"

    def o(x, f):
        return "None" if x is None else f"(Some {f(x)})"
    if t in ("Int32", "Int64"):
        body = f"(S{t} {o(s['min'], zlit)} {o(s['max'], zlit)})"
    elif t == "Double":
        body = f"(SDouble {o(s['min'], lambda x: str(int(x)))} {o(s['max'], lambda x: str(int(x)))})"
    elif t == "ByteArray":
        body = f"(SBytes {o(s['min'], zlist)} {o(s['max'], zlist)})"
    else:
        body = "SOtherStat"
    return f"(Some ({body}, {o(s['nulls'], zlit)}))"


NFLAGS = 10


def case_term(rgs, preds):
    """one Coq term per table: for every row group, for every predicate, a list of Z"""
    types = [c[1] for c in COLS]
    gs = []
    for rg in rgs:
        rows = "[" + "; ".join("[" + "; ".join(coq_val(t, c) for t, c in zip(types, r)) + "]" for r in rg["rows"]) + "]"
        sts = "[" + "; ".join(coq_stat(s) for s in rg["stats"]) + "]"
        gs.append(f"({rows}, ({sts} : list colstat))")
    cts = "[" + "; ".join(CT_COQ[t] for t in types) + "]"
    ps = "[" + ";\n   ".join(coq_pred(p) for p in preds) + "]"
    return (f"(let cts := {cts} in let ps := {ps} in\n"
            f"  map (fun g : list row * list colstat => let (rows, sts) := g in\n"
            f"  map (fun p => [b2z (might_match sts p); b2z (definitely_matches sts p); b2z (stats_ok rows sts);\n"
            f"     b2z (rows_typed cts rows); b2z (wt cts p); b2z (known_nan p rows); b2z (known_negzero Total p sts);\n"
            f"     b2z (known_i32_trunc p sts); b2z (known_2p53 p sts); b2z (known_strict_or Strict p sts)]\n"
            f"     ++ map (fun r => tv_code (eval E Ec Ep Strict IEEE p r)) rows\n"
            f"     ++ map (fun r => tv_code (eval E Ec Ep Strict Total p r)) rows) ps)\n   [" + ";\n    ".join(gs) + "])")


# which (column type, literal kind) pairs the model's `coerce` describes (others: parameter `ext`)
MODELLED = {
    "i64": {"i64", "i32", "date", "ts", "f64", "f32", "null"}, "i32": {"i64", "i32", "date", "ts", "f64", "f32", "null"},
    "date": {"i64", "i32", "date"},            # Date32 vs NULL literal: the interpreter raises "Cannot coerce Date32 and Null"
    "f64": {"f64", "f32", "i64", "i32", "ts", "null"}, "str": {"str", "null"}}


def fully_modelled(p):
    k = p[0]

    def pair(a, b):
        if a[0] == "col" and b[0] == "lit":
            return b[1][0] in MODELLED[CTYPE[a[1]]]
        if a[0] == "lit" and b[0] == "col":
            return a[1][0] in MODELLED[CTYPE[b[1]]]
        return False
    if k == "cmp":
        return pair(p[2], p[3])
    if k in ("and", "or"):
        return fully_modelled(p[1]) and fully_modelled(p[2])
    if k == "not":
        return fully_modelled(p[1])
    if k == "between":
        return pair(p[1], p[2]) and pair(p[1], p[3])
    if k == "in":
        return len(p[2]) > 0 and all(pair(p[1], x) for x in p[2])     # `IN ()`: FALSE or NULL, see Model.in_empty
    return False


def tv(x):
    return 2 if x is None else (1 if x else 0)


def gen_case(ctx, rng, n_rg, n_pred):
    rows, rgsize = gen_table(rng, n_rg)
    preds = [gen_pred(rng, rows, 2) for _ in range(n_pred)]
    sqls = []
    for p in preds:
        s = sql_pred(p)
        sqls.append(None if s is None else s)
    return {"cols": COLS, "rows": rows, "rg": rgsize, "preds": preds, "where": sqls}


def e2e_sql(c, k, kind):
    w = c["where"][k]
    return f"SELECT id FROM $T WHERE {w}" if kind == "select" else f"SELECT COUNT(*), SUM(id) FROM $T WHERE {w}"


def run_parallel(cases, workers=6):
    """run the harness on chunks of cases in parallel processes"""
    from concurrent.futures import ThreadPoolExecutor
    if not cases:
        return []
    vlib.build_harness("c05")
    k = max(1, min(workers, len(cases)))
    chunks = [cases[i::k] for i in range(k)]
    with ThreadPoolExecutor(max_workers=k) as ex:
        res = list(ex.map(lambda ch: vlib.run_harness("c05", ch), chunks))
    out = [None] * len(cases)
    for j, r in enumerate(res):
        for i, o in enumerate(r):
            out[j + i * k] = o
    return out


def canon_result(r):
    if "ok" in r:
        return sorted(repr(x) for x in r["ok"]["rows"])
    return "error"


def evaluate(ctx, cases):
    """returns items: list of dicts {case (minimal standalone), eq, ok, flags, out}"""
    outs = run_parallel([{"cols": c["cols"], "rows": c["rows"], "rg": c["rg"], "preds": c["preds"]} for c in cases])
    terms, index = [], []
    for ci, (c, o) in enumerate(zip(cases, outs)):
        if "rgs" not in o:
            continue
        terms.append(case_term(o["rgs"], c["preds"]))
        index.append(ci)
    vals = vlib.coq_eval_list(REQ, PRELUDE, terms, "c05", shard=max(2, (len(terms) + 13) // 14))
    by = {}
    for ci, v in zip(index, vals):
        for gi, row in enumerate(v):
            by[(ci, gi)] = row
    # end to end (slow: ~0.1 s per statement): only predicates on which some group was skipped / had its filter
    # dropped, plus a few others; all of them for the single-predicate witness tables
    e2e_req = []
    for ci, (c, o) in enumerate(zip(cases, outs)):
        if "rgs" not in o:
            continue
        hot, cold = [], []
        for k, w in enumerate(c["where"]):
            if w is None:
                continue
            acted = any((not rg["might"][k]) or rg["definite"][k] for rg in o["rgs"])
            (hot if acted else cold).append(k)
        cap = c.get("e2e_cap", 5)
        ctx.rng.shuffle(hot); ctx.rng.shuffle(cold)
        sel = hot[:cap] + cold[:1]
        for n_, k in enumerate(sel):
            kinds = ["select", "aggregate"] if len(c["preds"]) == 1 else [("select", "aggregate")[(n_ + ci) % 2]]
            for kind in kinds:
                e2e_req.append((ci, k, kind))
    per_case = {}
    for ci, k, kind in e2e_req:
        per_case.setdefault(ci, []).append((k, kind))
    e2e_cases = [{"cols": cases[ci]["cols"], "rows": cases[ci]["rows"], "rg": cases[ci]["rg"], "preds": [],
                  "sql": [e2e_sql(cases[ci], k, kind) for k, kind in lst]} for ci, lst in per_case.items()]
    e2e_outs = run_parallel(e2e_cases)
    e2e_by = {}
    for (ci, lst), eo in zip(per_case.items(), e2e_outs):
        for (k, kind), e in zip(lst, eo.get("e2e", [])):
            e2e_by.setdefault(ci, []).append((k, kind, e))
    items = []
    for ci, (c, o) in enumerate(zip(cases, outs)):
        if "rgs" not in o:
            items.append({"case": c, "eq": False, "ok": True, "flags": [], "out": o, "kind": "harness"})
            continue
        npred = len(c["preds"])
        lo = 0
        flags_any = [set() for _ in range(npred)]
        for gi, rg in enumerate(o["rgs"]):
            n = len(rg["rows"])
            for k, p in enumerate(c["preds"]):
                m = by[(ci, gi)][k]
                flg, ev_i, ev_t = m[:NFLAGS], m[NFLAGS:NFLAGS + n], m[NFLAGS + n:NFLAGS + 2 * n]
                might, definite = rg["might"][k], rg["definite"][k]
                rf, interp = rg["rf"][k], rg["interp"][k]
                eq = (flg[0] == int(might) and flg[1] == int(definite) and flg[2] == 1 and flg[3] == 1
                      and (gi in o["prune"][k]) == might)
                rf_is_ieee = None
                modelled = fully_modelled(p) and flg[4] == 1
                if isinstance(rf, list) and isinstance(interp, list):
                    rfc, inc = [tv(x) for x in rf], [tv(x) for x in interp]
                    if modelled:
                        rf_is_ieee = rfc == ev_i
                        eq = eq and inc == ev_t and (rfc == ev_i or rfc == ev_t)
                    kept = [x is True for x in rf]
                    ok = (might or not any(kept)) and (not (might and definite) or all(kept))
                    ctx.cov["rowfilter_rows_compared"] = ctx.cov.get("rowfilter_rows_compared", 0) + (n if modelled else 0)
                else:
                    kept, ok = None, True          # the row filter itself raises an error: no answer to compare
                    if modelled:
                        eq = False                 # the model says this comparison is well typed
                fl = []
                if flg[5]: fl.append("nan")
                if flg[6] and rf_is_ieee is not True: fl.append("negzero")
                if flg[7]: fl.append("i32_trunc")
                if flg[8]: fl.append("i64_beyond_2p53")
                if flg[9]: fl.append("strict_or")
                for x in ("nan", "negzero", "i32_trunc", "i64_beyond_2p53", "strict_or"):
                    if flg[5 + CLASSES.index(x)]:
                        flags_any[k].add(x)
                mini = {"cols": c["cols"], "rows": [[i] + r[1:] for i, r in enumerate(c["rows"][lo:lo + n])], "rg": max(n, 1),
                        "preds": [p], "where": [c["where"][k]]}
                items.append({"case": mini, "eq": eq, "ok": ok, "flags": fl, "kind": "rowgroup",
                              "pruned": not might, "definite": might and definite, "modelled": modelled,
                              "out": {"stats": rg["stats"], "might": might, "definite": definite, "rf": rf, "interp": interp,
                                      "model": {"might": flg[0], "definite": flg[1], "stats_ok": flg[2], "rows_typed": flg[3],
                                                "wt": flg[4], "eval_ieee": ev_i, "eval_total": ev_t}}})
            lo += n
        # end to end: Parquet table vs the same rows in memory
        for k, what, e in e2e_by.get(ci, []):
            p = c["preds"][k]
            a, b = canon_result(e["parquet"]), canon_result(e["memory"])
            mini = {"cols": c["cols"], "rows": c["rows"], "rg": c["rg"], "preds": [p], "where": [c["where"][k]]}
            items.append({"case": mini, "eq": True, "ok": a == b, "flags": [x for x in CLASSES if x in flags_any[k]],
                          "kind": "e2e-" + what, "out": {"sql": e2e_sql(c, k, what), "parquet": e["parquet"], "memory": e["memory"]}})
    return items


def make_classify(ctx, items):
    by = {id(it["case"]): it for it in items}

    def classify(case):
        it = by.get(id(case))
        if not it:
            return None
        for f in it["flags"]:
            if ctx.is_known(f):
                return f
        return it["flags"][0] if it["flags"] else None
    return classify


def of_i64_selftest(ctx):
    """the model's `i64 as f64` against the machine's, on boundary values (cheap sanity of the F64 section)"""
    rng = ctx.rng
    zs = [0, 1, -1, P53, P53 + 1, P53 + 2, P53 + 3, -P53 - 1, 2 ** 63 - 1, -2 ** 63, 2 ** 62 + 1, 2 ** 54 + 2, 2 ** 54 + 6, 2 ** 54 + 3]
    zs += [rng.randint(-2 ** 63, 2 ** 63 - 1) for _ in range(150)] + [rng.randint(-2 ** 55, 2 ** 55) for _ in range(100)]
    zs += [s * (2 ** k + d) for k in range(54, 63) for d in (-1, 0, 1, 2 ** (k - 53), 2 ** (k - 53) + 1, 2 ** (k - 53) - 1, 3 * 2 ** (k - 53)) for s in (1, -1)]
    vals = vlib.coq_eval_list(REQ, "", [f"(of_i64 {zlit(z)})" for z in zs], "c05_f64", shard=1000)
    bad = [(z, v, fbits(float(z))) for z, v in zip(zs, vals) if v != fbits(float(z))]
    ctx.cov["of_i64_selftest"] = {"values": len(zs), "mismatches": len(bad)}
    return bad


def run(ctx):
    proved = ctx.prove()
    rng = ctx.rng
    n_cases, n_rg, n_pred = ctx.n(25, 400), 6, ctx.n(30, 60)
    if not proved:
        n_cases *= 3
    cases = [gen_case(ctx, rng, n_rg, n_pred) for _ in range(n_cases)]
    cases += witness_cases()
    bad_f64 = of_i64_selftest(ctx)
    items = evaluate(ctx, cases)
    if bad_f64:
        items.append({"case": {"of_i64_mismatch": bad_f64[:5]}, "eq": False, "ok": True, "flags": [], "kind": "f64", "out": None})
    rgi = [it for it in items if it["kind"] == "rowgroup"]
    e2e = [it for it in items if it["kind"].startswith("e2e")]
    ctx.cov["evaluations"] = len(rgi) + len(e2e)
    seen = set()
    for it in rgi:
        if it["pruned"] or it["definite"]:
            seen.add(repr((it["case"]["rows"], it["case"]["preds"])))
    ctx.cov["distinct_nontrivial"] = len(seen)
    ctx.cov["input_distribution"] = {
        "tables": len(cases), "row_groups": sum(len(c["rows"]) // c["rg"] for c in cases),
        "rowgroup_x_predicate": len(rgi), "pruned": sum(1 for it in rgi if it["pruned"]),
        "row_filter_dropped": sum(1 for it in rgi if it["definite"]),
        "fully_modelled_predicates": sum(1 for it in rgi if it["modelled"]),
        "row_filter_error": sum(1 for it in rgi if not isinstance(it["out"]["rf"], list)),
        "e2e_queries": len(e2e), "e2e_disagreements": sum(1 for it in e2e if not it["ok"]),
        "spec_violations_by_class": {c: sum(1 for it in items if not it["ok"] and it["flags"][:1] == [c]) for c in CLASSES},
        "spec_violations_unclassified": sum(1 for it in items if not it["ok"] and not it["flags"])}
    for it in rgi[:2] + e2e[:1]:
        ctx.sample({"input": it["case"], "impl_output": it["out"]})
    # violations first so that they are reported before the 3-violation cut-off hides a class
    order = sorted(range(len(items)), key=lambda i: (items[i]["ok"], items[i]["eq"]))
    seen_cls, sel = {}, []
    for i in order:
        it = items[i]
        if not it["ok"]:
            cls = next((f for f in it["flags"] if ctx.is_known(f)), it["flags"][0] if it["flags"] else None)
            key = (cls, it["kind"], it["eq"])
            seen_cls[key] = seen_cls.get(key, 0) + 1
            if cls is not None and ctx.is_known(cls) and it["eq"] and seen_cls[key] > 1:
                continue              # one KNOWN-FINDING line per class is printed anyway
        sel.append(i)
    sub = [items[i] for i in sel]
    ctx.judge([it["case"] for it in sub], [it["eq"] for it in sub], [it["ok"] for it in sub],
              classify=make_classify(ctx, sub), impl_outs=[it["out"] for it in sub])
    ctx.cov["traces_validated_against_impl"] = sum(1 for it in items if it["eq"])
    if not proved and not ctx.violations:
        ctx.proof_broken_violation(f"{len(items)} (row group, predicate) evaluations on real Parquet files")
    return ctx.finish(
        rule="random tables of 6 row groups (1-4 rows; int64/int32/double/utf8/date32 columns drawn from boundary pools: NULL, NaN, "
             "-0.0, +-inf, subnormal, |v|>2^53, i32/i64 extremes, non-ASCII and >64-byte strings) x random predicates of depth<=2 "
             "(comparisons both orientations, BETWEEN, IN, NOT, AND, OR, IS NULL, LIKE, non-column operands; literals of type "
             "Int64/Int32/Date32/Timestamp/Float64/Float32/Utf8/Null/Boolean near the stored values) plus the refutation witnesses; "
             "non-trivial = a (row group, predicate) pair on which the engine actually skipped the group or dropped the row filter, "
             "distinct by (rows, predicate)",
        assumptions=["parquet::ArrowWriter statistics: null_count exact, min/max bound every non-NULL non-NaN value, never NaN "
                     "(checked on every generated row group by stats_ok)",
                     "rows decoded from the Parquet file are the rows written (decoded rows are what the model sees)",
                     "arrow cmp kernels = total order on Float64, bytewise on Utf8; Rust PartialOrd on f64 = IEEE (model F64 section; "
                     "checked per row against PredicateEvaluator and evaluate_expr)",
                     "predicates outside the modelled column/literal pairs evaluate to anything (parameters ext/extc/extp of the theorems)"])


def witness_cases():
    """the `_refuted` witnesses of Proofs.v as real tables (one row group each)"""
    F = lambda x: ["f", str(fbits(x))]
    nan = ["f", str(NAN)]
    base = lambda a=0, b=0, f=F(0.5), s="x", d=0: [a, b, f, s, d]
    out = []

    def add(rows, pred):
        rows = [[i] + r for i, r in enumerate(rows)]
        out.append({"cols": COLS, "rows": rows, "rg": len(rows), "preds": [pred], "where": [sql_pred(pred)]})
    add([base(a=P53), base(a=P53 + 1)], ["cmp", "le", ["col", "a"], ["lit", ["i64", P53]]])
    add([base(a=2 ** 32 + 5), base(a=2 ** 32 + 7)], ["cmp", "gt", ["col", "a"], ["lit", ["date", 10]]])
    add([base(f=F(1.0)), base(f=nan)], ["cmp", "ne", ["col", "f"], ["lit", ["f64", str(fbits(1.0))]]])
    add([base(f=F(1.0)), base(f=nan)], ["cmp", "lt", ["col", "f"], ["lit", ["f64", str(fbits(5.0))]]])
    add([base(f=F(1.0)), base(f=nan)], ["not", ["cmp", "lt", ["col", "f"], ["lit", ["f64", str(fbits(5.0))]]]])
    add([base(f=F(-0.0))], ["and", ["cmp", "lt", ["col", "f"], ["lit", ["f64", str(fbits(0.0))]]], ["cmp", "ne", ["col", "s"], ["lit", ["str", "q"]]]])
    add([base(f=F(-0.0))], ["cmp", "eq", ["col", "f"], ["lit", ["i64", 0]]])
    add([base(a=1, b=None)], ["or", ["cmp", "ge", ["col", "a"], ["lit", ["i64", 0]]], ["cmp", "eq", ["col", "b"], ["lit", ["i64", 1]]]])
    return out


def replay(ctx, obj):
    c = obj.get("case") or obj.get("first_differing_case")
    if "preds" not in c:
        print(c)
        return 1
    items = evaluate(ctx, [c])
    rc = 0
    for it in items:
        print(it["kind"], "impl_equals_model:", it["eq"], "spec_ok:", it["ok"], "classes:", it["flags"])
        print("  ", it["out"])
        if not (it["eq"] and it["ok"]):
            rc = 1
    return rc
