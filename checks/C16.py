"""C16 — peer HTTP responses are framed or rejected.
Theorems in coq/theories/Props/C16.v; correspondence: http_client::parse_response (hook verif_parse_response) AND the real
async client (get / post_text / post_json) against a scripted TCP server, vs C16.Model.parse_response, on
(1) well-formed responses at EVERY truncation point (hook path; a subset over a real socket), (2) a separate malformed /
mutated / random byte stream (hook; a subset over the socket), (3) stalling peers (timeout observed).
The known-finding class short_body is decided by the Coq predicate known_short_body on the bytes delivered."""
import vlib
from vlib import zlit, zlist

REQ = "From QV Require Import Bytes.ByteStr C16.Model."
NAMES = ["Content-Type", "X-QE-Rows", "x-qe-elapsed-ms", "Connection", "Server", "X-Request-Id", "ETag", "DATE", "x"]
VALUES = ["42", "application/json", "text/plain; charset=utf-8", "a: b", "x  y", "", "close", "0", "1.5", "W/\"abc\"", "Tue, 01 Jan 2030 00:00:00 GMT"]
REASONS = ["OK", "OK", "Not Found", "Service Unavailable", "", "I'm a teapot", "OK  padded ", " lead"]
CLIENTS = ["get", "post_text", "post_json"]


def rcase(rng, s):
    m = rng.random()
    return s if m < 0.4 else s.lower() if m < 0.6 else s.upper() if m < 0.8 else "".join(c.upper() if rng.random() < 0.5 else c.lower() for c in s)


def gen_body(rng):
    n = rng.choice([0, 1, 2, 5, 17, 40, 90])
    kind = rng.choice(["bin", "text", "term", "json"])
    if kind == "bin":
        return bytes(rng.randint(0, 255) for _ in range(n))
    if kind == "term":
        return (b"ab\r\n\r\ncd\r\n" * 10)[:n]
    if kind == "json":
        return (b'{"rows": 42, "ok": true, "msg": "x\\ny"}' * 3)[:n]
    return bytes(rng.choice(b"abc xyz\n,.") for _ in range(n))


def gen_resp(rng, declares=True):
    body = gen_body(rng)
    hs = [(rcase(rng, rng.choice(NAMES)), rng.choice(VALUES)) for _ in range(rng.choice([0, 0, 1, 2, 3, 5]))]
    if declares:
        n = len(body)
        cl = rng.choice([str(n)] * 8 + ["+%d" % n, "00%d" % n])
        hs.insert(rng.randint(0, len(hs)), (rcase(rng, "Content-Length"), cl))
        if rng.random() < 0.05:
            hs.append(("Content-Length", "999"))      # a later duplicate: the first one is the declared length
    return {"version": rng.choice(["HTTP/1.1"] * 8 + ["HTTP/1.0", "HTTP/2"]),
            "status": rng.choice([200, 200, 200, 204, 301, 400, 404, 500, 503, rng.randint(100, 599), 0, 7, 65535, 999]),
            "reason": rng.choice(REASONS), "headers": hs, "body": list(body), "declares": declares}


def render(w):
    s = (w["version"] + " " + str(w["status"]) + " " + w["reason"]).encode()
    for k, v in w["headers"]:
        s += b"\r\n" + k.encode() + b": " + v.encode()
    return list(s + b"\r\n\r\n" + bytes(w["body"]))


FIXED_BAD = [b"", b"\r\n\r\n", b"\r\n\r\nbody", b"HTTP/1.1 200 OK\r\nContent-Len", b"HTTP/1.1\r\n\r\n", b"HTTP/1.1 abc OK\r\n\r\n",
             b"HTTP/1.1 65536 X\r\n\r\n", b"HTTP/1.1 65535 X\r\n\r\n", b"HTTP/1.1 +200 OK\r\n\r\n", b"HTTP/1.1 -1 X\r\n\r\n", b" 200\r\n\r\n",
             b"x 200\r\n\r\n", b"HTTP/1.1\xc2\xa0200\xe2\x80\x83OK\r\n\r\nbody", b"\xff\xfe 200 OK\r\n\r\n", b"HTTP/1.1 2\xff0 OK\r\n\r\n",
             b"HTTP/1.1 200 OK\nContent-Length: 5\n\nhello", b"HTTP/1.1 200 OK\r\nContent-Length: 5\r\n\r\nhi",
             b"HTTP/1.1 200 OK\r\nContent-Length: abc\r\n\r\nhi", b"HTTP/1.1 200 OK\r\nContent-Length: -1\r\n\r\nhi",
             b"HTTP/1.1 200 OK\r\nContent-Length: 18446744073709551616\r\n\r\nhi", b"HTTP/1.1 200 OK\r\nContent-Length: 18446744073709551615\r\n\r\nhi",
             b"HTTP/1.1 200 OK\r\ncontent-length : 5\r\n\r\nhi", b"HTTP/1.1 200 OK\r\nContent-Length: 5\r\nContent-Length: 2\r\n\r\nhi",
             b"HTTP/1.1 200 OK\r\nContent-Length: 2\r\nContent-Length: 5\r\n\r\nhi", b"HTTP/1.1 200 OK\r\nno colon here\r\n\r\n",
             b"HTTP/1.1 200 OK\r\n  : v\r\n\r\n", b"HTTP/1.1 200 OK\r\n\xc3\x28: \xff\r\n\r\n", b"HTTP/1.1 200 OK\r\nX:\xc2\xa0\r\n\r\n",
             b"HTTP/1.1 200 OK\r\nX-A: 1\r\n folded\r\n\r\n", b"HTTP/1.1 200 OK\r\n\r\n", b"HTTP/1.1 200 OK\r\n\r\n\r\n\r\n", b"HTTP/1.1 200\r\n\r\nx",
             b"HTTP/1.1  200  OK\r\n\r\n", b"HTTP/1.1\t200\r\n\r\n", b"\r\nHTTP/1.1 200 OK\r\n\r\n", b"HTTP/1.1 200 OK\r\r\n\r\n", b"HTTP/1.1 200 OK\n\r\n\r\n",
             b"HTTP/1.1 200 OK\r\nContent-Length:\xe2\x80\x832\xe2\x80\x83\r\n\r\nh", b"HTTP/1.1 200 OK\r\nCONTENT-LENGTH: +3\r\n\r\nab", b"200 200 200\r\n\r\n",
             b"HTTP/1.1 0200 OK\r\n\r\n", b"HTTP/1.1 200 OK\r\nContent-Length: 0\r\n\r\n", b"HTTP/1.1 200 OK\r\nTransfer-Encoding: chunked\r\n\r\n5\r\nhello\r\n0\r\n\r\n"]
ALPH = list(b"HTP/1.20 OK\r\n\r\n:: -+") + [0xC2, 0xA0, 0xFF, 0x80, 0xE2, 0x83, 9, 11, 0]


def gen_bad(rng, i):
    if i < len(FIXED_BAD):
        return list(FIXED_BAD[i])
    r = rng.random()
    if r < 0.7:
        b = render(gen_resp(rng, declares=rng.random() < 0.7))
        for _ in range(rng.randint(1, 3)):
            op = rng.choice(["del", "ins", "rep", "swapcrlf", "dup", "trunc"])
            pos = rng.randint(0, max(len(b) - 1, 0))
            if op == "del" and b:
                del b[pos]
            elif op == "ins":
                b.insert(pos, rng.choice(ALPH))
            elif op == "rep" and b:
                b[pos] = rng.choice(ALPH)
            elif op == "swapcrlf":
                b = [10 if x == 13 and rng.random() < 0.5 else x for x in b]
            elif op == "dup" and b:
                b = b[:pos] + b[pos:pos + 6] + b[pos:]
            elif op == "trunc":
                b = b[:pos]
        return b
    return [rng.choice(ALPH) for _ in range(rng.randint(0, 40))]


# ---------------- Coq rendering ----------------
def bz(s):
    return zlist(list(s.encode()))


def w_term(w):
    hs = "[" + "; ".join(f"({bz(k)}, {bz(v)})" for k, v in w["headers"]) + "]"
    return f"(mkW {bz(w['version'])} {zlit(w['status'])} {bz(w['reason'])} {hs} {zlist(w['body'])})"


def outcome_term(o, timeout_ms=None, hs0=None):
    if "panic" in o or "harness_error" in o:
        return "OPanic"
    if timeout_ms is not None and o.get("ms", 0) > timeout_ms + 1500:
        return "OHang"
    if "err" in o:
        return "OErr"
    r = o["ok"]
    if hs0 is not None and r["headers"] == hs0:
        hs = "hs0"
    else:
        hs = "[" + "; ".join(f"({zlist(k)}, {zlist(v)})" for k, v in r["headers"]) + "]"
    return f"(OOk (mkResp {zlit(r['status'])} {hs} {zlist(r['body'])}))"


def group_term(g, outs):
    tmo = g.get("timeout_ms") if g["mode"] != "hook" else None
    if g["kind"] == "resp":
        w = g["w"]
        hs0 = [[list(k.lower().encode()), list(v.encode())] for k, v in w["headers"]]
        claim = f"[(if {vlib.blit(w['declares'])} then wf w else wf_syntax w); list_eqb Z.eqb (render w) raw; true]"
        cuts = "; ".join(f"eval_cut {vlib.blit(w['declares'])} w raw {k}%nat {outcome_term(o, tmo, hs0)}" for k, o in zip(g["cuts"], outs))
        return f"(let raw := {zlist(g['raw'])} in let w := {w_term(w)} in let hs0 := expected_headers w in [{claim}; {cuts}])"
    return f"(let raw := {zlist(g['raw'])} in [[true; true; true]; eval_raw raw {outcome_term(outs[0], tmo)}])"


def evaluate(ctx, groups):
    """groups: dicts with mode/raw/cuts(/w). Returns flat lists over (group, cut)."""
    res = vlib.run_harness("c16", [{"mode": g["mode"], "raw": g["raw"], "cuts": g["cuts"], "client": g.get("client", "post_text"),
                                    "timeout_ms": g.get("timeout_ms", 3000)} for g in groups])
    flat, outs, eq, ok = [], [], [], []
    coq_groups, coq_idx = [], []
    for gi, (g, r) in enumerate(zip(groups, res)):
        go = r.get("outs") or [{"harness_error": str(r)[:200]} for _ in g["cuts"]]
        g["_outs"] = go
        if g["mode"] == "stall":
            for k, o in zip(g["cuts"], go):
                good = o.get("err") == "TimedOut" and o.get("req_ok") and g["timeout_ms"] <= o.get("ms", 10 ** 9) <= g["timeout_ms"] + 1000
                flat.append({"group": strip(g), "k": k, "cls": None}); outs.append(o); eq.append(bool(good)); ok.append(bool(good))
        else:
            coq_groups.append(group_term(g, go)); coq_idx.append(gi)
    vals = vlib.coq_eval_list(REQ, "", coq_groups, "c16", shard=8)
    gen_ok = True
    # which parser does the engine correspond to? the current one, or (after a fix in /repo) parse_response_checked;
    # it must be the SAME one on every delivered byte string
    cur = all(b[0] for v in vals for b in v[1:])
    chk = all(b[3] for v in vals for b in v[1:])
    col = 3 if (chk and not cur) else 0
    ctx.cov["model_variant"] = "checked (Content-Length enforced)" if col == 3 else "current"
    for gi, v in zip(coq_idx, vals):
        g = groups[gi]
        gen_ok = gen_ok and all(v[0])
        for k, o, b in zip(g["cuts"], g["_outs"], v[1:]):
            sock_ok = g["mode"] == "hook" or bool(o.get("req_ok"))
            flat.append({"group": strip(g), "k": k, "cls": "short_body" if b[2] else None})
            outs.append(o); eq.append(bool(b[col]) and sock_ok); ok.append(bool(b[1]))
    return flat, outs, eq, ok, gen_ok


def strip(g):
    return {k: v for k, v in g.items() if not k.startswith("_")}


def mk_group(kind, mode, raw, cuts, rng, w=None):
    g = {"kind": kind, "mode": mode, "raw": raw, "cuts": cuts}
    if w is not None:
        g["w"] = w
    if mode != "hook":
        g["client"] = rng.choice(CLIENTS)
        g["timeout_ms"] = 3000
    return g


def run(ctx):
    proved = ctx.prove()
    rng = ctx.rng
    n_resp, n_sock, n_bad, n_bad_sock = ctx.n(70, 800), ctx.n(8, 80), ctx.n(300, 4000), ctx.n(40, 400)
    if not proved:
        n_resp += 200; n_bad += 1000
    groups = []
    for i in range(n_resp + n_sock):
        w = gen_resp(rng, declares=(i % 6 != 5))
        raw = render(w)
        groups.append(mk_group("resp", "hook" if i < n_resp else "socket", raw, list(range(len(raw) + 1)), rng, w))
    for i in range(n_bad):
        raw = gen_bad(rng, i)
        groups.append(mk_group("raw", "hook" if i >= n_bad_sock else "socket", raw, [len(raw)], rng))
    for t in (150, 300):
        w = gen_resp(rng)
        raw = render(w)
        g = mk_group("resp", "stall", raw, [rng.randint(0, len(raw) - 1), len(raw)], rng, w)
        g["timeout_ms"] = t
        groups.append(g)
    flat, outs, eq, ok, gen_ok = evaluate(ctx, groups)
    if not gen_ok:
        raise RuntimeError("C16 generator produced a response outside wf / a rendering that differs from the Coq renderer")
    ctx.cov["evaluations"] = len(flat)
    seen = set()
    for c in flat:
        p = bytes(c["group"]["raw"][:c["k"]])
        if b"\r\n\r\n" in p:
            seen.add(p)
    ctx.cov["distinct_nontrivial"] = len(seen)
    kinds = {}
    for c, o in zip(flat, outs):
        if c["group"]["mode"] != "hook":
            key = "ok" if "ok" in o else o.get("err", "panic")
            kinds[key] = kinds.get(key, 0) + 1
    rs = [g for g in groups if g["kind"] == "resp" and g["mode"] != "stall"]
    ctx.cov["input_distribution"] = {
        "wellformed_responses": len(rs), "of_which_over_real_socket": sum(1 for g in rs if g["mode"] == "socket"),
        "declaring_content_length": sum(1 for g in rs if g["w"]["declares"]),
        "truncation_points_evaluated": sum(len(g["cuts"]) - 1 for g in rs), "complete_responses_evaluated": len(rs),
        "socket_exchanges": sum(len(g["cuts"]) for g in groups if g["mode"] != "hook"),
        "malformed_or_mutated_inputs": sum(1 for g in groups if g["kind"] == "raw"),
        "malformed_over_socket": sum(1 for g in groups if g["kind"] == "raw" and g["mode"] == "socket"),
        "stalling_peer_cases": sum(len(g["cuts"]) for g in groups if g["mode"] == "stall"),
        "class_short_body": sum(1 for c in flat if c["cls"] == "short_body"),
        "max_response_len": max(len(g["raw"]) for g in groups), "socket_outcomes": kinds,
        "malformed_accepted_by_impl": sum(1 for g in groups if g["kind"] == "raw" and "ok" in g["_outs"][0]),
        "max_socket_ms": max([o.get("ms", 0) for c, o in zip(flat, outs) if c["group"]["mode"] == "socket"] + [0]),
        "stall_ms": [o.get("ms") for c, o in zip(flat, outs) if c["group"]["mode"] == "stall"]}
    for i in (0, len(flat) // 2, len(flat) - 1):
        c = flat[i]
        ctx.sample({"delivered": bytes(c["group"]["raw"][:c["k"]]).decode("latin-1"), "mode": c["group"]["mode"], "impl_output": outs[i]})
    ctx.judge(flat, eq, ok, classify=lambda c: c.get("cls"), impl_outs=outs)
    if not proved and not ctx.violations:
        ctx.proof_broken_violation(f"{len(flat)} (byte stream, truncation point) pairs, none violates the executable spec")
    return ctx.finish(
        rule="well-formed HTTP/1.x responses (status 0..65535, reasons, 0-6 headers in random case, Content-Length on 5 of 6, "
             "bodies 0-90 bytes incl. CRLFCRLF and non-UTF-8) evaluated at EVERY truncation point 0..len through the parser hook, "
             "a subset through the real async client over a loopback TCP socket (scripted std::net server: read request, write k bytes, "
             "close); separate stream of fixed malformed inputs + mutations + random bytes (a subset over the socket); two stalling-peer "
             "cases (TimedOut within timeout+1s observed); non-trivial = distinct delivered byte strings containing a header terminator",
        assumptions=["tokio's read_to_end returns exactly the bytes the peer wrote before closing (checked on the socket subset, assumed for the rest)",
                     "timeout behaviour (tokio::time::timeout around the whole exchange) is observed on stalling peers, not proved",
                     "the model covers parse_response; connect/write errors of request_inner are io errors passed through (Err), not modelled"])


def replay(ctx, obj):
    c = obj.get("case") or obj.get("first_differing_case")
    g = dict(c["group"]); g["cuts"] = [c["k"]]
    flat, outs, eq, ok, gen_ok = evaluate(ctx, [g])
    print("impl_output:", outs[0]); print("impl_equals_model:", eq[0], "spec_ok:", ok[0], "class:", flat[0]["cls"])
    return 0 if ok[0] and eq[0] else 1
