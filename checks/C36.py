"""C36 — scalar functions compute their documented values (partial).
Theorems: coq/theories/Props/C36.v.  Correspondence: `SELECT f(args)` through the harness `sql` binary, with
literal arguments (one query per case) and with column arguments (one query per table of cases), compared
with C36.Model.m_f (exact) and s_f (documented value); deviations must fall in a class k_f decided in Coq.
Every other function name the binder exposes gets a NULL-propagation + determinism smoke test."""
import datetime
import vlib
from vlib import zlit

REQ = "From QV Require Import Base.Util Bytes.ByteStr C36.Model."

# ids 1 length-bytes, 6 strpos-bytes, 17 soundex-vowel, 18 translate-drop, 20 hex-lowercase, 28 shift-ge64, 29 shift-wrap32,
# 31 dow-sunday were repaired in the engine (fixed: lines in known_findings.txt) and are no longer excusable.
KNAMES = {2: "substr-null", 3: "substr-start", 4: "substr-neglen", 5: "concat-null",
          7: "pad-null", 8: "pad-empty", 9: "pad-row0", 10: "split-null", 11: "split-oor",
          12: "split-nonpositive", 13: "split-emptydelim", 14: "chr-invalid", 15: "count-null",
          16: "hamming-length", 19: "luhn-nondigit",
          21: "decode-invalid", 22: "urlenc-chars", 23: "urldec-plus", 24: "urldec-invalid",
          25: "tobase-radix", 26: "tobase-negative", 27: "base-row0",
          30: "bitcount-bits", 32: "datediff-partial", 33: "dateadd-null", 34: "date-unit",
          35: "greatest-null", 36: "shift-negative"}
OTHER_CLASSES = ["smoke-null", "null-literal"]      # decided in the smoke test, not by a Coq predicate

UNITS = {"day": 0, "week": 1, "month": 2, "quarter": 3, "year": 4}


# ---------------- rendering ----------------
def cps(s):
    return "[" + "; ".join(str(ord(c)) for c in s) + "]"


def blist(b):
    return "[" + "; ".join(str(x) for x in b) + "]"


def c_arg(t, v):
    """Coq term of one argument of type t."""
    if v is None:
        return "None"
    if t == "s":
        return f"(Some {cps(v)})"
    if t in ("i", "d"):
        return f"(Some {zlit(v)})"
    if t == "h":                       # varbinary given as hex text
        return f"(Some {blist(bytes.fromhex(v))})"
    if t == "y":                       # string handed to the model as UTF-8 bytes
        return f"(Some {blist(v.encode('utf-8'))})"
    if t == "u":
        return f"(Some {UNITS.get(v.lower(), 5)})"
    if t == "b":
        return "(Some true)" if v else "(Some false)"
    raise ValueError(t)


def sqlstr(s):
    return "'" + s.replace("'", "''") + "'"


def day_lit(z):
    return "DATE '" + datetime.date.fromordinal(z + 719163).isoformat() + "'"


def sql_arg(t, v):
    if v is None:
        return {"s": "CAST(NULL AS VARCHAR)", "y": "CAST(NULL AS VARCHAR)", "u": "CAST(NULL AS VARCHAR)",
                "i": "CAST(NULL AS BIGINT)", "d": "CAST(NULL AS DATE)", "b": "CAST(NULL AS BOOLEAN)",
                "h": "from_hex(CAST(NULL AS VARCHAR))"}[t]
    if t in ("s", "y", "u"):
        return sqlstr(v)
    if t == "i":
        return str(v)
    if t == "d":
        return day_lit(v)
    if t == "h":
        return f"from_hex({sqlstr(v)})"
    if t == "b":
        return "true" if v else "false"
    raise ValueError(t)


COLT = {"s": "str", "y": "str", "u": "str", "h": "str", "i": "i64", "d": "date", "b": "bool"}


def col_expr(t, name):
    return f"from_hex({name})" if t == "h" else name


def col_cell(t, v):
    if v is None:
        return None
    return ["d", v] if t == "d" else v


def to_res(cell, bytes_out=False):
    """harness result cell -> Coq res term"""
    if cell is None:
        return "RNull"
    if isinstance(cell, bool):
        return f"(RBool {'true' if cell else 'false'})"
    if isinstance(cell, int):
        return f"(RInt {zlit(cell)})"
    if isinstance(cell, str):
        return f"(RStr {cps(cell)})"
    if isinstance(cell, list) and cell and cell[0] == "d":
        return f"(RInt {zlit(cell[1])})"
    if isinstance(cell, list) and cell and cell[0] == "o" and cell[1] in ("Binary", "LargeBinary"):
        return f"(RStr {blist(bytes.fromhex(cell[2]))})"
    return "RErr"


# ---------------- the modelled functions ----------------
# sig: argument types; m/s/k: Coq terms over {0},{1},.. (arguments), {cp} (constant path), {r0_i} (row-0 value of arg i)
def F(sql, sig, m, s, k="0", variadic=False):
    return dict(sql=sql, sig=sig, m=m, s=s, k=k, variadic=variadic)


FUNCS = {
    "length": F("length({0})", "s", "m_length {0}", "s_length {0}"),
    "substr2": F("substr({0}, {1})", "si", "m_substr {cp} {0} {1} None", "s_substr {0} {1} None", "k_substr {cp} {0} {1} None"),
    "substr3": F("substring({0}, {1}, {2})", "sii", "m_substr {cp} {0} {1} (Some {2})", "s_substr {0} {1} (Some {2})",
                 "k_substr {cp} {0} {1} (Some {2})"),
    "replace": F("replace({0}, {1}, {2})", "sss", "m_replace {0} {1} {2}", "s_replace {0} {1} {2}"),
    "concat": F("concat({*})", "s", "m_concat [{;}]", "s_concat [{;}]", "k_concat [{;}]", variadic=True),
    "concat_ws": F("concat_ws({*})", "s", "m_concat_ws {0} [{;1}]", "s_concat_ws {0} [{;1}]", variadic=True),
    "strpos": F("strpos({0}, {1})", "ss", "m_strpos {0} {1}", "s_strpos {0} {1}"),
    "position": F("position({1} IN {0})", "ss", "m_strpos {0} {1}", "s_strpos {0} {1}"),
    "reverse": F("reverse({0})", "s", "m_reverse {0}", "s_reverse {0}"),
    "lpad": F("lpad({0}, {1}, {2})", "sis", "m_pad true {0} {1} {r0_2}", "s_pad true {0} {1} {2}", "k_pad {0} {1} {2} {r0_2}"),
    "rpad": F("rpad({0}, {1}, {2})", "sis", "m_pad false {0} {1} {r0_2}", "s_pad false {0} {1} {2}", "k_pad {0} {1} {2} {r0_2}"),
    "split_part": F("split_part({0}, {1}, {2})", "ssi", "m_split_part {0} {1} {2}", "s_split_part {0} {1} {2}",
                    "k_split_part {0} {1} {2}"),
    "starts_with": F("starts_with({0}, {1})", "ss", "m_starts_with {0} {1}", "s_starts_with {0} {1}"),
    "ends_with": F("ends_with({0}, {1})", "ss", "m_ends_with {0} {1}", "s_ends_with {0} {1}"),
    "chr": F("chr({0})", "i", "m_chr {0}", "s_chr {0}", "k_chr {0}"),
    "ascii": F("ascii({0})", "s", "m_ascii {0}", "s_ascii {0}"),
    "codepoint": F("codepoint({0})", "s", "m_codepoint {0}", "s_codepoint {0}"),
    "left": F("left({0}, {1})", "si", "m_left {0} {1}", "s_left {0} {1}", "k_count {0} {1}"),
    "right": F("right({0}, {1})", "si", "m_right {0} {1}", "s_right {0} {1}", "k_count {0} {1}"),
    "repeat": F("repeat({0}, {1})", "si", "m_repeat {0} {1}", "s_repeat {0} {1}", "k_count {0} {1}"),
    "hamming_distance": F("hamming_distance({0}, {1})", "ss", "m_hamming {0} {1}", "s_hamming {0} {1}", "k_hamming {0} {1}"),
    "levenshtein_distance": F("levenshtein_distance({0}, {1})", "ss", "m_levenshtein {0} {1}", "s_levenshtein {0} {1}"),
    "soundex": F("soundex({0})", "s", "m_soundex {0}", "s_soundex {0}"),
    "translate": F("translate({0}, {1}, {2})", "sss", "m_translate {0} {1} {2}", "s_translate {0} {1} {2}"),
    "luhn_check": F("luhn_check({0})", "s", "m_luhn {0}", "s_luhn {0}", "k_luhn {0}"),
    "to_hex": F("to_hex({0})", "h", "m_to_hex {0}", "s_to_hex {0}"),
    "to_hex_int": F("to_hex({0})", "i", "m_to_hex_int {0}", "None"),
    "from_hex": F("from_hex({0})", "s", "m_from_hex {0}", "s_from_hex {0}", "k_from_hex {0}"),
    "to_base64": F("to_base64({0})", "h", "m_to_base64 {0}", "s_to_base64 {0}"),
    "from_base64": F("from_base64({0})", "s", "m_from_base64 {0}", "s_from_base64 {0}"),
    "to_base32": F("to_base32({0})", "h", "m_to_base32 {0}", "s_to_base32 {0}"),
    "from_base32": F("from_base32({0})", "s", "m_from_base32 {0}", "s_from_base32 {0}"),
    "url_encode": F("url_encode({0})", "y", "m_url_encode {0}", "s_url_encode {0}", "k_url_encode {0}"),
    "url_decode": F("url_decode({0})", "y", "m_url_decode {0}", "s_url_decode {0}", "k_url_decode {0}"),
    "to_base": F("to_base({0}, {1})", "ii", "m_to_base {0} {r0_1}", "s_to_base {0} {1}", "k_to_base {0} {1} {r0_1}"),
    "from_base": F("from_base({0}, {1})", "si", "m_from_base {0} {r0_1}", "s_from_base {0} {1}", "k_from_base {0} {1} {r0_1}"),
    "bitwise_and": F("bitwise_and({0}, {1})", "ii", "m_bitwise_and {0} {1}", "s_bitwise_and {0} {1}"),
    "bitwise_or": F("bitwise_or({0}, {1})", "ii", "m_bitwise_or {0} {1}", "s_bitwise_or {0} {1}"),
    "bitwise_xor": F("bitwise_xor({0}, {1})", "ii", "m_bitwise_xor {0} {1}", "s_bitwise_xor {0} {1}"),
    "bitwise_not": F("bitwise_not({0})", "i", "m_bitwise_not {0}", "s_bitwise_not {0}"),
    "bit_count": F("bit_count({0}, {1})", "ii", "m_bit_count {0} {1}", "s_bit_count {0} {1}", "k_bit_count {0} {1}"),
    "bitwise_left_shift": F("bitwise_left_shift({0}, {1})", "ii", "m_shift 0 {0} {1}", "s_shift 0 {0} {1}", "k_shift {0} {1}"),
    "bitwise_right_shift": F("bitwise_right_shift({0}, {1})", "ii", "m_shift 1 {0} {1}", "s_shift 1 {0} {1}", "k_shift {0} {1}"),
    "bitwise_right_shift_arithmetic": F("bitwise_right_shift_arithmetic({0}, {1})", "ii", "m_shift 2 {0} {1}",
                                        "s_shift 2 {0} {1}", "k_shift {0} {1}"),
    "year": F("year({0})", "d", "dfun d_year {0}", "sdfun d_year {0}"),
    "month": F("month({0})", "d", "dfun d_month {0}", "sdfun d_month {0}"),
    "day": F("day({0})", "d", "dfun d_day {0}", "sdfun d_day {0}"),
    "quarter": F("quarter({0})", "d", "dfun d_quarter {0}", "sdfun d_quarter {0}"),
    "day_of_year": F("day_of_year({0})", "d", "dfun d_doy {0}", "sdfun d_doy {0}"),
    "week": F("week({0})", "d", "dfun d_week {0}", "sdfun d_week {0}"),
    "day_of_week": F("day_of_week({0})", "d", "m_day_of_week {0}", "s_day_of_week {0}"),
    "last_day_of_month": F("last_day_of_month({0})", "d", "dfun d_last_day {0}", "sdfun d_last_day {0}"),
    "date_trunc": F("date_trunc({0}, {1})", "ud", "m_date_trunc {0} {1}", "s_date_trunc {0} {1}", "k_date_trunc {0} {1}"),
    "date_add": F("date_add({0}, {1}, {2})", "uid", "m_date_add {0} {1} {2}", "s_date_add {0} {1} {2}", "k_date_add {0} {1} {2}"),
    "date_diff": F("date_diff({0}, {1}, {2})", "udd", "m_date_diff {0} {1} {2}", "s_date_diff {0} {1} {2}", "k_date_diff {0} {1} {2}"),
    "nullif": F("nullif({0}, {1})", "ii", "m_nullif {0} {1}", "s_nullif {0} {1}"),
    "if": F("if({0}, {1}, {2})", "bii", "m_if {0} {1} {2}", "s_if {0} {1} {2}"),
    "coalesce": F("coalesce({*})", "i", "m_coalesce [{;}]", "s_coalesce [{;}]", variadic=True),
    "greatest": F("greatest({*})", "i", "m_extreme true [{;}]", "s_extreme true [{;}]", "k_extreme [{;}]", variadic=True),
    "least": F("least({*})", "i", "m_extreme false [{;}]", "s_extreme false [{;}]", "k_extreme [{;}]", variadic=True),
}

FAMILY = {
    "string": ["length", "substr2", "substr3", "replace", "concat", "concat_ws", "strpos", "position", "reverse", "lpad", "rpad",
               "split_part", "starts_with", "ends_with", "chr", "ascii", "codepoint", "left", "right", "repeat",
               "hamming_distance", "levenshtein_distance", "soundex", "translate", "luhn_check"],
    "encoding": ["to_hex", "to_hex_int", "from_hex", "to_base64", "from_base64", "to_base32", "from_base32", "to_base", "from_base"],
    "url": ["url_encode", "url_decode"],
    "bitwise": ["bitwise_and", "bitwise_or", "bitwise_xor", "bitwise_not", "bit_count", "bitwise_left_shift",
                "bitwise_right_shift", "bitwise_right_shift_arithmetic"],
    "date": ["year", "month", "day", "quarter", "day_of_year", "week", "day_of_week", "last_day_of_month", "date_trunc",
             "date_add", "date_diff"],
    "conditional": ["nullif", "if", "coalesce", "greatest", "least"],
}


def sig_of(fn, args):
    f = FUNCS[fn]
    return f["sig"] * len(args) if f["variadic"] else f["sig"]


def fmt(template, rendered, extra):
    out = template
    out = out.replace("{*}", ", ".join(rendered))
    out = out.replace("{;1}", "; ".join(rendered[1:]))
    out = out.replace("{;}", "; ".join(rendered))
    for i, r in enumerate(rendered):
        out = out.replace("{%d}" % i, r)
    for k, v in extra.items():
        out = out.replace("{%s}" % k, v)
    return out


# ---------------- generators ----------------
ALPHA = list("abcABZz019 ,.-_*+%/xyhwHW") + ["é", "ß", "€", "😀", "́", "İ", "ü"]


def g_str(rng, maxlen=7, alphabet=None):
    a = alphabet or ALPHA
    style = rng.random()
    if style < 0.12:
        return ""
    if style < 0.3:
        return "".join(rng.choice("abc") for _ in range(rng.randint(1, maxlen)))
    return "".join(rng.choice(a) for _ in range(rng.randint(1, maxlen)))


def g_int_small(rng):
    return rng.choice([0, 1, 2, 3, 4, 5, 7, 10, 64, -1, -2, -5, rng.randint(-12, 12)])


def g_i64(rng):
    return rng.choice([0, 1, -1, 2, 255, -255, 2**31 - 1, -2**31, 2**32, 2**63 - 1, -(2**63 - 1), 12, 10,
                       rng.randint(-2**63 + 1, 2**63 - 1), rng.randint(-1000, 1000), 1 << rng.randint(0, 62)])


def g_date(rng):
    r = rng.random()
    if r < 0.15:
        return rng.choice([-719162, 2932896, 0, -1, 11016, 11017, 19782, 19723, 19753, 19754, 18627, 18628, 18630, 20088])
    if r < 0.45:   # month ends / starts, leap days
        y = rng.choice([1, 4, 100, 400, 1582, 1600, 1900, 1969, 1970, 1999, 2000, 2020, 2023, 2024, 2100, 9999])
        m = rng.randint(1, 12)
        last = (datetime.date(y + (m == 12), (m % 12) + 1, 1) - datetime.timedelta(days=1)).day if not (y == 9999 and m == 12) else 31
        d = rng.choice([1, 28, last, max(1, last - 1)])
        return datetime.date(y, m, d).toordinal() - 719163
    if r < 0.8:
        return rng.randint(-25000, 40000)
    return rng.randint(-719162, 2932896)


def maybe_null(rng, v, p=0.1):
    return None if rng.random() < p else v


def gen_args(rng, fn, safe):
    """safe=True: arguments on which the engine neither panics nor errors (usable inside a multi-row table)."""
    S = lambda **kw: g_str(rng, **kw)
    N = lambda v, p=0.1: maybe_null(rng, v, p)
    if fn in ("length", "reverse", "ascii", "codepoint"):
        return [N(S())]
    if fn == "substr2":
        return [N(S()), N(rng.choice([g_int_small(rng), 2**63 - 1, -(2**63 - 1), 2**40]))]
    if fn == "substr3":
        return [N(S()), N(g_int_small(rng)), N(rng.choice([g_int_small(rng), 2**63 - 1]))]
    if fn == "replace":
        s = S()
        f = rng.choice(["", s[:1], s[1:3], "a", "ab", S(maxlen=2)])
        return [N(s), N(f, 0.06), N(S(maxlen=3), 0.06)]
    if fn in ("concat", "coalesce", "greatest", "least"):
        n = rng.randint(1, 4)
        if fn == "concat":
            return [N(S(maxlen=3), 0.2) for _ in range(n)]
        return [N(rng.choice([g_int_small(rng), g_i64(rng)]), 0.25) for _ in range(n)]
    if fn == "concat_ws":
        return [N(S(maxlen=2), 0.1)] + [N(S(maxlen=3), 0.25) for _ in range(rng.randint(1, 4))]
    if fn in ("strpos", "position", "starts_with", "ends_with"):
        s = S()
        i = rng.randint(0, len(s))
        sub = rng.choice(["", s[i:i + rng.randint(0, 3)], s[:rng.randint(0, 3)], s[len(s) - rng.randint(0, 3):], S(maxlen=2)])
        return [N(s), N(sub)]
    if fn in ("lpad", "rpad"):
        n = rng.choice([0, 1, 2, 3, 5, 8, 12, 20])
        if not safe and rng.random() < 0.2:
            n = rng.choice([-1, -5, -(2**62)])
        return [N(S(maxlen=5)), N(n), N(rng.choice(["", "x", "xy", " ", "é😀", S(maxlen=3)]))]
    if fn == "split_part":
        d = rng.choice([",", ",", "ab", "", "é", "a"])
        parts = [g_str(rng, maxlen=2, alphabet=list("abxé")) for _ in range(rng.randint(0, 4))]
        return [N(d.join(parts)), N(d, 0.06), N(rng.choice([0, 1, 1, 2, 2, 3, 4, 5, 6, -1, 2**40]))]
    if fn == "chr":
        return [N(rng.choice([65, 97, 233, 8364, 128512, 0x10FFFF, 0x110000, 0xD800, 0xDFFF, 0xE000, 0xD7FF, -1, 1, 127, 128,
                              2**32 + 65, 2**32 - 1, rng.randint(1, 0x10FFFF), rng.randint(-10, 2**33)]))]
    if fn in ("left", "right", "repeat"):
        n = rng.choice([0, 1, 2, 3, 5, 9, -1, -3]) if fn == "repeat" else rng.choice([g_int_small(rng), 2**63 - 1, 2**33])
        return [N(S(maxlen=5)), N(n)]
    if fn == "hamming_distance":
        a = S()
        r = rng.random()
        if r < 0.5:
            b = "".join(rng.choice([c, rng.choice(ALPHA)]) for c in a)
        elif r < 0.7:
            b = a[:-1]
        else:
            b = S()
        return [N(a), N(b)]
    if fn == "levenshtein_distance":
        a = g_str(rng, maxlen=9, alphabet=list("abcé😀"))
        b = rng.choice([g_str(rng, maxlen=9, alphabet=list("abcé😀")), a[1:], a[:-1], a[::-1], a + "x"])
        return [N(a), N(b)]
    if fn == "soundex":
        return [N(g_str(rng, maxlen=8, alphabet=list("AEIOUYHWBFPVCGJKQSXZDTLMNRaeiouhwbcdlmr") + list("AEHW") * 3 + list("1 -")))]
    if fn == "translate":
        s = g_str(rng, maxlen=6, alphabet=list("abcdé😀"))
        return [N(s), N(g_str(rng, maxlen=4, alphabet=list("abcdé")), 0.06), N(g_str(rng, maxlen=4, alphabet=list("xyzß")), 0.06)]
    if fn == "luhn_check":
        ds = "".join(rng.choice("0123456789") for _ in range(rng.randint(0, 17)))
        r = rng.random()
        if r < 0.3 and ds:     # make it valid
            body = ds[:-1]
            tot = 0
            for i, ch in enumerate(reversed(body)):
                d = int(ch)
                if i % 2 == 0:
                    d = d * 2
                    d = d - 9 if d > 9 else d
                tot += d
            ds = body + str((10 - tot % 10) % 10)
        elif r < 0.45:
            ds = ds[:3] + rng.choice(["-", " ", "a", "é", "٣"]) + ds[3:]
        return [N(ds)]
    if fn in ("to_hex", "to_base64", "to_base32"):
        b = bytes(rng.choice([0, 1, 15, 16, 127, 128, 255, rng.randint(0, 255)]) for _ in range(rng.randint(0, 11)))
        return [N(b.hex())]
    if fn == "to_hex_int":
        return [N(g_i64(rng))]
    if fn == "from_hex":
        b = bytes(rng.randint(0, 255) for _ in range(rng.randint(0, 6))).hex()
        return [N(rng.choice([b, b.upper(), b[:-1], b + "g", "zz", b[:1].upper() + b[1:]]))]
    if fn == "from_base64":
        import base64
        raw = bytes(rng.randint(0, 255) for _ in range(rng.randint(0, 8)))
        e = base64.b64encode(raw).decode()
        return [N(rng.choice([e, e, e, e.rstrip("="), e[:-1], e + "=", e.replace("A", "-"), "aGk", "aGl=", "!!!!"]))]
    if fn == "from_base32":
        import base64
        raw = bytes(rng.randint(0, 255) for _ in range(rng.randint(0, 8)))
        e = base64.b32encode(raw).decode()
        return [N(rng.choice([e, e, e, e.rstrip("="), e.lower(), e[:-1], "NBUQ====", "NBUR====", "1BUQ===="]))]
    if fn == "url_encode":
        return [N(g_str(rng, maxlen=6, alphabet=list("aZ09 -_.*+%/~=&?é€😀́")))]
    if fn == "url_decode":
        import urllib.parse
        s = g_str(rng, maxlen=5, alphabet=list("aZ9 -_.*+/é€😀"))
        q = urllib.parse.quote(s, safe="")
        return [N(rng.choice([q, q, urllib.parse.quote_plus(s), q.lower(), q[:-1], q + "%", q + "%zz", "%ff", "%C3", "a+b", s]))]
    if fn == "to_base":
        r = rng.choice([2, 8, 10, 16, 36, 3, 7, 35]) if safe else rng.choice([2, 8, 10, 16, 36, 3, 1, 0, 37, -2, 2**32 + 2])
        return [N(g_i64(rng)), N(r, 0.05)]
    if fn == "from_base":
        r = rng.choice([2, 8, 10, 16, 36, 7]) if safe else rng.choice([2, 8, 10, 16, 36, 1, 0, 37, -16, 2**32 + 10])
        v = rng.choice([0, 1, 255, 2**63 - 1, 2**63, -(2**63), -(2**63) - 1, rng.randint(-2**40, 2**40)])
        rr = r if 2 <= r <= 36 else 10
        digs = "0123456789abcdefghijklmnopqrstuvwxyz"
        n, t = abs(v), ""
        while True:
            t = digs[n % rr] + t
            n //= rr
            if n == 0:
                break
        t = ("-" if v < 0 else rng.choice(["", "", "+"])) + t
        s = rng.choice([t, t, t.upper(), t + "z", "", "-", "+", " " + t, t + "é"])
        return [N(s), N(r, 0.0 if safe else 0.05)]
    if fn in ("bitwise_and", "bitwise_or", "bitwise_xor", "nullif"):
        a = g_i64(rng)
        return [N(a), N(rng.choice([g_i64(rng), a]))]
    if fn == "bitwise_not":
        return [N(g_i64(rng))]
    if fn == "bit_count":
        b = rng.choice([64, 64, 32, 8, 2, 16, 1, 0, 65, -1])
        x = rng.choice([g_i64(rng), rng.randint(-130, 130), 2**(max(b, 2) - 1) - 1 if b <= 64 else 7, -(2**(max(min(b, 64), 2) - 1))])
        return [N(max(x, -(2**63 - 1))), N(b)]
    if fn.startswith("bitwise_") and "shift" in fn:
        s = rng.choice([0, 1, 2, 31, 32, 33, 62, 63, 63, 64, 64, 65, 100, -1, -64, 2**32, 2**32 + 1, -(2**32) + 3, 2**40, 2**63 - 1, -(2**63 - 1)])
        return [N(g_i64(rng)), N(s)]
    if fn in ("year", "month", "day", "quarter", "day_of_year", "week", "day_of_week", "last_day_of_month"):
        return [N(g_date(rng))]
    if fn == "date_trunc":
        return [N(rng.choice(["day", "week", "month", "quarter", "year", "YEAR", "Month", "fortnight"]), 0.05), N(g_date(rng))]
    if fn == "date_add":
        u = rng.choice(["day", "week", "month", "month", "year", "quarter", "MONTH", "fortnight"])
        z = rng.randint(-600000, 2800000) if rng.random() < 0.2 else g_date(rng)
        lim = {"day": 40000, "week": 5000, "month": 1300, "quarter": 400, "year": 100}.get(u.lower(), 10)
        v = rng.choice([0, 1, -1, 12, -12, 11, 13, 24, 48, rng.randint(-lim, lim)])
        z = max(-719162 + 40000, min(2932896 - 40000, z))
        return [N(u, 0.05), N(v), N(z)]
    if fn == "date_diff":
        a = g_date(rng)
        b = rng.choice([g_date(rng), a + rng.randint(-800, 800), a])
        b = max(-719162, min(2932896, b))
        return [N(rng.choice(["day", "week", "month", "month", "year", "year", "quarter", "fortnight"]), 0.05), N(a), N(b)]
    if fn == "if":
        return [N(rng.choice([True, False]), 0.3), N(g_int_small(rng), 0.2), N(g_int_small(rng), 0.2)]
    raise ValueError(fn)


# ---------------- running ----------------
def build_queries(cases):
    """cases: list of dicts fn,args,path(,rows,row). Returns (harness input, locator per case)."""
    queries, tables, loc = [], [], []
    seen_tables = {}
    for c in cases:
        f = FUNCS[c["fn"]]
        if c["path"] == "lit":
            sig = sig_of(c["fn"], c["args"])
            rendered = [sql_arg(t, v) for t, v in zip(sig, c["args"])]
            queries.append("SELECT " + fmt(f["sql"], rendered, {}))
            loc.append((len(queries) - 1, 0))
        else:
            key = c["table"]
            if key not in seen_tables:
                rows = c["rows"]
                sig = sig_of(c["fn"], rows[0])
                cols = [[f"c{i}", COLT[t]] for i, t in enumerate(sig)]
                tables.append({"name": key, "cols": cols + [["rid", "i64"]],
                               "rows": [[col_cell(t, v) for t, v in zip(sig, r)] + [i] for i, r in enumerate(rows)]})
                rendered = [col_expr(t, f"c{i}") for i, t in enumerate(sig)]
                queries.append(f"SELECT rid, {fmt(f['sql'], rendered, {})} FROM {key}")
                seen_tables[key] = len(queries) - 1
            loc.append((seen_tables[key], c["row"]))
    return {"tables": tables, "queries": queries}, loc


def run_cases(cases):
    inp, loc = build_queries(cases)
    out = vlib.run_harness("sql", [inp])[0]
    results = out.get("results")
    if results is None:
        raise RuntimeError(f"harness failure: {out}")
    impl = []
    for (qi, row), c in zip(loc, cases):
        r = results[qi]
        if "ok" not in r:
            impl.append(("RErr", r))
            continue
        rows = r["ok"]["rows"]
        if c["path"] == "lit":
            cell = rows[0][0] if rows else "missing"
        else:
            m = [x for x in rows if x[0] == row]
            cell = m[0][1] if m else "missing"
        impl.append((to_res(cell), cell))
    return impl


def case_term(c, impl_term):
    f = FUNCS[c["fn"]]
    sig = sig_of(c["fn"], c["args"])
    rendered = [c_arg(t, v) for t, v in zip(sig, c["args"])]
    r0 = c["rows"][0] if c["path"] == "col" else c["args"]
    extra = {"cp": "true" if c["path"] == "lit" else "false"}
    for i, t in enumerate(sig):
        if i < len(r0):
            extra[f"r0_{i}"] = c_arg(t, r0[i])
    m = fmt(f["m"], rendered, extra)
    s = fmt(f["s"], rendered, extra)
    k = fmt(f["k"], rendered, extra)
    return f"(chk ({m}) ({s}) ({k}) {impl_term})"


def evaluate(cases):
    impl = run_cases(cases)
    vals = vlib.coq_eval_list(REQ, "", [case_term(c, t) for c, (t, _) in zip(cases, impl)], "c36", shard=800)
    return impl, vals


# witnesses of the eight repaired classes: run first, on both paths, and must now give the documented value
REGRESSIONS = [
    ("length", ["é"]), ("length", ["a€😀́"]), ("strpos", ["éa", "a"]), ("position", ["€😀x", "x"]),
    ("soundex", ["Bab"]), ("soundex", ["Tymczak"]), ("soundex", ["Ashcraft"]), ("soundex", ["Pfister"]),
    ("translate", ["ab", "ab", "x"]), ("translate", ["abcda", "ad", "é"]), ("to_hex", ["ff"]), ("to_hex", ["00a1b2c3d4e5f6"]),
    ("bitwise_left_shift", [1, 64]), ("bitwise_left_shift", [1, 2**32 + 1]), ("bitwise_right_shift", [-1, 64]),
    ("bitwise_right_shift_arithmetic", [-8, 64]), ("bitwise_right_shift_arithmetic", [8, 100]), ("bitwise_left_shift", [1, 63]),
    ("day_of_week", [0]), ("day_of_week", [19729]), ("day_of_week", [-719162]), ("day_of_week", [2932896]),
]


def regression_cases():
    cases = []
    for fn, args in REGRESSIONS:
        cases.append({"fn": fn, "args": args, "path": "lit", "regression": True})
    by = {}
    for fn, args in REGRESSIONS:
        by.setdefault(fn, []).append(args)
    for fn, rows in by.items():
        for i, r in enumerate(rows):
            cases.append({"fn": fn, "args": r, "path": "col", "table": f"reg_{fn}", "rows": rows, "row": i, "regression": True})
    return cases


def gen_cases(rng, per_fn_lit, tables_per_fn, rows_per_table):
    cases = regression_cases()
    tno = 0
    for fn in FUNCS:
        for _ in range(per_fn_lit):
            cases.append({"fn": fn, "args": gen_args(rng, fn, safe=False), "path": "lit"})
        for _ in range(tables_per_fn):
            if FUNCS[fn]["variadic"]:
                n = rng.randint(2, 4)
                rows = []
                while len(rows) < rows_per_table:
                    a = gen_args(rng, fn, safe=True)
                    if len(a) == n:
                        rows.append(a)
            else:
                rows = [gen_args(rng, fn, safe=True) for _ in range(rows_per_table)]
            tno += 1
            for i, r in enumerate(rows):
                cases.append({"fn": fn, "args": r, "path": "col", "table": f"t{tno}", "rows": rows, "row": i})
    return cases


# ---------------- smoke test over every exposed scalar function name ----------------
S_, I_, F_, D_, T_, J_, B_ = "'ab,c'", "3", "0.5E0", "DATE '2024-02-29'", "TIMESTAMP '2024-02-29 12:34:56'", "'{\"a\":[1,2]}'", "to_utf8('ab')"
NUL = {S_: "CAST(NULL AS VARCHAR)", I_: "CAST(NULL AS BIGINT)", F_: "CAST(NULL AS DOUBLE)", D_: "CAST(NULL AS DATE)",
       T_: "CAST(NULL AS TIMESTAMP)", J_: "CAST(NULL AS VARCHAR)", B_: "to_utf8(CAST(NULL AS VARCHAR))"}
SMOKE = {}
for n in ("abs ceil ceiling floor round sqrt sign truncate trunc ln log2 log10 exp sin cos tan asin acos atan degrees radians cbrt "
          "sinh cosh tanh cot is_finite is_nan is_infinite normal_cdf_x").split():
    SMOKE[n] = [F_]
SMOKE.pop("normal_cdf_x")
SMOKE.update({
    "power": [F_, F_], "pow": [F_, F_], "mod": [I_, I_], "log": [F_, F_], "atan2": [F_, F_], "width_bucket": [F_, F_, F_, I_],
    "normal_cdf": [F_, F_, F_], "inverse_normal_cdf": [F_, F_, F_], "beta_cdf": [F_, F_, F_], "inverse_beta_cdf": [F_, F_, F_],
    "t_cdf": [F_, F_], "t_pdf": [F_, F_], "wilson_interval_lower": [I_, I_, F_], "wilson_interval_upper": [I_, I_, F_],
    "upper": [S_], "lower": [S_], "trim": [S_], "ltrim": [S_], "rtrim": [S_], "char_length": [S_], "character_length": [S_],
    "split": [S_, "','"], "normalize": [S_], "to_utf8": [S_], "from_utf8": [B_], "word_stem": [S_],
    "hour": [T_], "minute": [T_], "second": [T_], "millisecond": [T_], "year_of_week": [D_], "date_part": ["'year'", D_],
    "from_unixtime": [I_], "to_unixtime": [T_], "from_iso8601_timestamp": ["'2024-02-29T01:02:03Z'"],
    "from_iso8601_date": ["'2024-02-29'"], "to_iso8601": [D_], "date_format": [T_, "'%Y-%m-%d'"], "date_parse": ["'2024-02-29'", "'%Y-%m-%d'"],
    "parse_datetime": ["'2024-02-29'", "'yyyy-MM-dd'"], "human_readable_seconds": [I_], "format_number": [I_], "parse_data_size": ["'1kB'"],
    "regexp_like": [S_, "'a.'"], "regexp_extract": [S_, "'a.'"], "regexp_replace": [S_, "'a.'", "'x'"], "regexp_split": [S_, "','"],
    "regexp_count": [S_, "'a'"], "regexp_extract_all": [S_, "'a'"], "regexp_position": [S_, "'b'"],
    "md5": [S_], "sha1": [S_], "sha256": [S_], "sha512": [S_], "crc32": [B_], "xxhash64": [B_], "murmur3": [B_],
    "spooky_hash_v2_32": [B_], "spooky_hash_v2_64": [B_], "hmac_md5": [S_, S_], "hmac_sha1": [S_, S_], "hmac_sha256": [S_, S_], "hmac_sha512": [S_, S_],
    "to_base64url": [B_], "from_base64url": ["'YWI'"], "from_big_endian_32": ["from_hex('00000001')"], "to_big_endian_32": ["CAST(3 AS INTEGER)"],
    "from_big_endian_64": ["from_hex('0000000000000001')"], "to_big_endian_64": [I_], "from_ieee754_32": ["from_hex('3f800000')"],
    "to_ieee754_32": ["CAST(0.5E0 AS REAL)"], "from_ieee754_64": ["from_hex('3ff0000000000000')"], "to_ieee754_64": [F_],
    "url_extract_host": ["'http://h.x:8/p?q=1#f'"], "url_extract_path": ["'http://h.x:8/p?q=1#f'"], "url_extract_port": ["'http://h.x:8/p?q=1#f'"],
    "url_extract_protocol": ["'http://h.x:8/p?q=1#f'"], "url_extract_query": ["'http://h.x:8/p?q=1#f'"],
    "url_extract_fragment": ["'http://h.x:8/p?q=1#f'"], "url_extract_parameter": ["'http://h.x:8/p?q=1#f'", "'q'"],
    "json_extract": [J_, "'$.a'"], "json_extract_scalar": [J_, "'$.a[0]'"], "json_size": [J_, "'$.a'"], "json_array_length": ["'[1,2]'"],
    "json_array_get": ["'[1,2]'", I_], "json_array_contains": ["'[1,2]'", I_], "is_json_scalar": ["'1'"], "json_format": [J_], "json_parse": [J_],
    "json_query": [J_, "'$.a'"], "json_value": [J_, "'$.a[0]'"], "json_exists": [J_, "'$.a'"],
})
# modelled names get one smoke call too (their NULL behaviour is judged by the model, not here)
SMOKE_MODELLED = {
    "length": [S_], "substr": [S_, I_], "substring": [S_, I_, I_], "replace": [S_, "'a'", "'b'"], "concat": [S_, S_], "concat_ws": ["','", S_],
    "strpos": [S_, "'b'"], "reverse": [S_], "lpad": [S_, I_, "'x'"], "rpad": [S_, I_, "'x'"], "split_part": [S_, "','", I_],
    "starts_with": [S_, "'a'"], "ends_with": [S_, "'c'"], "chr": [I_], "ascii": [S_], "codepoint": ["'a'"], "left": [S_, I_], "right": [S_, I_],
    "repeat": [S_, I_], "hamming_distance": [S_, S_], "levenshtein_distance": [S_, S_], "soundex": [S_], "translate": [S_, "'a'", "'b'"],
    "luhn_check": ["'79927398713'"], "to_hex": [B_], "from_hex": ["'00ff'"], "to_base64": [B_], "from_base64": ["'YWI='"], "to_base32": [B_],
    "from_base32": ["'MFRA===='"], "url_encode": [S_], "url_decode": [S_], "to_base": [I_, "16"], "from_base": ["'ff'", "16"],
    "bitwise_and": [I_, I_], "bit_and": [I_, I_], "bitwise_or": [I_, I_], "bit_or": [I_, I_], "bitwise_xor": [I_, I_], "bit_xor": [I_, I_],
    "bitwise_not": [I_], "bit_not": [I_], "bit_count": [I_, "64"], "bitwise_left_shift": [I_, I_], "bitwise_right_shift": [I_, I_],
    "bitwise_right_shift_arithmetic": [I_, I_], "year": [D_], "month": [D_], "day": [D_], "quarter": [D_], "week": [D_], "day_of_week": [D_],
    "dayofweek": [D_], "day_of_year": [D_], "dayofyear": [D_], "last_day_of_month": [D_], "date_trunc": ["'month'", D_],
    "date_add": ["'day'", I_, D_], "date_diff": ["'day'", D_, D_], "datediff": ["'day'", D_, D_], "nullif": [I_, I_],
}
# functions whose documented behaviour is NOT to return NULL for a NULL argument (or that take no argument)
NOT_STRICT = {"concat_ws", "coalesce", "if", "nullif", "greatest", "least", "typeof", "try", "json_object", "json_array", "format"}
NOARG = ["pi", "e", "infinity", "nan", "current_date", "current_timestamp", "now", "current_time", "current_timezone", "localtime",
         "localtimestamp", "random", "rand", "uuid"]
NONDET = {"current_timestamp", "now", "current_time", "localtime", "localtimestamp", "random", "rand", "uuid", "current_date"}
NOT_CALLED = ["extract", "cast", "try_cast", "try", "case", "format", "typeof", "timezone_hour", "timezone_minute", "at_timezone",
              "with_timezone", "timezone", "parse_duration", "json_object", "json_array", "cosine_similarity", "cosine_distance",
              "l2_distance", "euclidean_distance", "dot_product", "inner_product", "cardinality", "array_length", "element_at",
              "array_contains", "contains", "array_position", "array_distinct", "array_intersect", "array_union", "array_except",
              "array_join", "array_max", "array_min", "array_remove", "array_sort", "arrays_overlap", "array_concat", "flatten",
              "array_reverse", "sequence", "shuffle", "slice", "trim_array", "array_repeat", "ngrams", "combinations", "array_first",
              "array_last", "contains_sequence", "zip"]
# smoke-only functions observed (unchanged tree) NOT to return NULL for a NULL argument: (function, argument position).
# All three read the integer through get_int_value (validity ignored, NULL reads as 0).  Known class `smoke-null`.
SMOKE_NULL_KNOWN = {("width_bucket", 3), ("json_array_get", 1), ("json_array_contains", 1)}
# an untyped NULL literal argument is a type error instead of NULL.  Known class `null-literal`.
NULL_LITERAL_PROBES = ["SELECT length(NULL)", "SELECT strpos(NULL, 'a')", "SELECT lpad('a', NULL, 'x')", "SELECT bitwise_and(NULL, 1)"]


def smoke(ctx):
    """One call with sample arguments (twice: determinism), then each argument replaced by a typed NULL."""
    plan = []
    for name, args in list(SMOKE.items()) + list(SMOKE_MODELLED.items()):
        plan.append((name, None, f"SELECT {name}({', '.join(args)})"))
        if name in SMOKE:
            for i, a in enumerate(args):
                if a in NUL:
                    b = list(args)
                    b[i] = NUL[a]
                    plan.append((name, i, f"SELECT {name}({', '.join(b)})"))
    for name in NOARG:
        plan.append((name, None, f"SELECT {name}()"))
    for q in NULL_LITERAL_PROBES:
        plan.append(("<null-literal>", -1, q))
    queries = [q for _, _, q in plan]
    o1 = vlib.run_harness("sql", [{"tables": [], "queries": queries}])[0]["results"]
    o2 = vlib.run_harness("sql", [{"tables": [], "queries": queries}])[0]["results"]
    rep = {"calls": len(plan), "functions": len(SMOKE) + len(SMOKE_MODELLED) + len(NOARG), "errors": {}, "panics": {},
           "null_not_propagated": [], "nondeterministic": [], "null_literal_errors": []}
    bad = []
    for (name, pos, q), a, b in zip(plan, o1, o2):
        if "panic" in a:
            rep["panics"][q] = a["panic"][:120]
        elif "err" in a:
            rep["errors"][q] = a["err"][:120]
        if a != b and name not in NONDET:
            rep["nondeterministic"].append(q)
            bad.append({"kind": "nondeterministic scalar function", "query": q, "first": a, "second": b})
        if pos == -1:
            got_null = "ok" in a and a["ok"]["rows"] and a["ok"]["rows"][0][0] is None
            if not got_null:
                rep["null_literal_errors"].append([q, a.get("err", a.get("panic", a.get("ok")))])
                if ctx.is_known("null-literal"):
                    ctx.known_finding("null-literal", ctx.known["null-literal"])
                else:
                    bad.append({"kind": "untyped NULL literal argument did not give NULL", "query": q, "result": a, "class": "null-literal"})
            continue
        if pos is not None and "ok" in a:
            cell = a["ok"]["rows"][0][0] if a["ok"]["rows"] else "no-row"
            if cell is not None:
                rep["null_not_propagated"].append([name, pos, q, cell])
                if name in NOT_STRICT:
                    continue
                if (name, pos) in SMOKE_NULL_KNOWN and ctx.is_known("smoke-null"):
                    ctx.known_finding("smoke-null", ctx.known["smoke-null"])
                else:
                    bad.append({"kind": "NULL argument did not give NULL (smoke-only function)", "query": q, "result": cell,
                                "class": "smoke-null" if (name, pos) in SMOKE_NULL_KNOWN else None})
    return rep, bad


def describe(c):
    return f"{c['fn']} {c['args']} via {c['path']}"


def run(ctx):
    proved = ctx.prove()
    rng = ctx.rng
    cases = gen_cases(rng, per_fn_lit=ctx.n(22, 220), tables_per_fn=ctx.n(2, 12), rows_per_table=ctx.n(7, 12))
    if not proved:
        cases += gen_cases(rng, 60, 4, 10)
    impl, vals = evaluate(cases)
    eq = [v[0] == 1 for v in vals]
    ok = [v[1] == 1 for v in vals]
    cls = {id(c): KNAMES.get(v[2]) for c, v in zip(cases, vals)}
    per_fn, per_class = {}, {}
    nontrivial = set()
    for c, v, (t, cell) in zip(cases, vals, impl):
        d = per_fn.setdefault(c["fn"], {"lit": 0, "col": 0, "null_arg": 0, "non_ascii": 0, "err": 0, "known": 0})
        d[c["path"]] += 1
        d["null_arg"] += any(a is None for a in c["args"])
        d["non_ascii"] += any(isinstance(a, str) and any(ord(ch) > 127 for ch in a) for a in c["args"])
        d["err"] += t == "RErr"
        if v[1] != 1:
            d["known"] += 1
            per_class[KNAMES.get(v[2], "?")] = per_class.get(KNAMES.get(v[2], "?"), 0) + 1
        if all(a is not None for a in c["args"]):
            nontrivial.add(repr((c["fn"], c["args"], c["path"])))
    ctx.cov["evaluations"] = len(cases)
    ctx.cov["distinct_nontrivial"] = len(nontrivial)
    ctx.cov["per_function_cases"] = per_fn
    ctx.cov["regression_inputs"] = {"count": sum(1 for c in cases if c.get("regression")),
                                    "all_meet_spec": all(o for c, o in zip(cases, ok) if c.get("regression")),
                                    "what": "witnesses of the repaired classes length-bytes strpos-bytes soundex-vowel translate-drop "
                                            "hex-lowercase shift-ge64 shift-wrap32 dow-sunday, literal and column path, run first"}
    ctx.cov["known_class_hits"] = per_class
    ctx.cov["input_distribution"] = {
        "paths": {"literal (one SELECT per case, constant path)": sum(1 for c in cases if c["path"] == "lit"),
                  "column (SELECT f(c0..) FROM t, vectorised path)": sum(1 for c in cases if c["path"] == "col")},
        "families": {k: sum(sum(per_fn[f][p] for p in ("lit", "col")) for f in v if f in per_fn) for k, v in FAMILY.items()}}
    ctx.cov["modelled_functions"] = FAMILY
    ctx.cov["uncovered_function_families"] = {
        "libm / float math (not modelled)": [n for n in SMOKE if SMOKE[n] and SMOKE[n][0] == F_] + ["power", "pow", "mod", "log", "atan2"],
        "unicode case mapping / trimming / normalization": ["upper", "lower", "trim", "ltrim", "rtrim", "normalize", "word_stem", "split"],
        "regex": [n for n in SMOKE if n.startswith("regexp_")],
        "json": [n for n in SMOKE if n.startswith("json_") or n == "is_json_scalar"],
        "hashes / hmac / endian / ieee754": ["md5", "sha1", "sha256", "sha512", "crc32", "xxhash64", "murmur3", "spooky_hash_v2_32",
                                              "spooky_hash_v2_64", "hmac_*", "to/from_big_endian_32/64", "to/from_ieee754_32/64", "to/from_base64url"],
        "timestamp / timezone / formatting": ["hour", "minute", "second", "millisecond", "year_of_week", "date_part", "extract", "from_unixtime",
                                               "to_unixtime", "from_iso8601_*", "to_iso8601", "date_format", "date_parse", "parse_datetime",
                                               "human_readable_seconds", "format_number", "parse_data_size", "date_add/date_diff/date_trunc on timestamps"],
        "url_extract_*": [n for n in SMOKE if n.startswith("url_extract")],
        "statistics": ["normal_cdf", "inverse_normal_cdf", "beta_cdf", "inverse_beta_cdf", "t_cdf", "t_pdf", "wilson_interval_*", "width_bucket"],
        "not even smoke-tested (arrays, vectors, cast/try/case/format, timezone)": NOT_CALLED,
    }
    for c, (t, cell) in list(zip(cases, impl))[:1] + [x for x in zip(cases, impl) if x[0]["path"] == "col"][:2]:
        ctx.sample({"fn": c["fn"], "args": c["args"], "path": c["path"], "impl_output": cell})
    ctx.judge(cases, eq, ok, classify=lambda c: cls[id(c)], impl_outs=[cell for _, cell in impl])
    rep, bad = smoke(ctx)
    ctx.cov["smoke"] = rep
    for b in bad[:3]:
        ctx.violation(b, found_input=True)
    if not proved and not ctx.violations:
        ctx.proof_broken_violation(f"{len(cases)} generated function calls, none violates the executable spec")
    return ctx.finish(
        rule="per modelled function: boundary / empty / non-ASCII (2,3,4-byte, combining) / negative / huge / NULL arguments, each "
             "as literals (one SELECT per case) and as columns of a multi-row table; impl compared exactly with the Coq model and with the "
             "documented value; non-trivial = all arguments non-NULL, distinct by (function, arguments, path); every other exposed "
             "scalar function name: one call, repeated (determinism), and one call per argument replaced by a typed NULL",
        assumptions=["strings are valid Unicode; byte-level str::find / starts_with / split on UTF-8 equal the code-point-level "
                     "operations of the model (UTF-8 is self-synchronising)",
                     "chrono::NaiveDate, the hex/base64/data-encoding/percent-encoding crates and str::replace/split are external: "
                     "their Gallina counterparts are specifications, tied by correspondence only",
                     "lpad/rpad sizes above 2^63 only (capacity-overflow panic) or below 1000: sizes in between would exhaust memory",
                     "dates 0001-01-01..9999-12-31"])


def replay(ctx, obj):
    c = obj.get("case") or obj.get("first_differing_case")
    if c is None:
        print(obj)
        return 1
    cases = [dict(c, path="lit")] if c["path"] == "lit" else [dict(c, args=r, row=i) for i, r in enumerate(c["rows"])]
    impl, vals = evaluate(cases)
    i = 0 if c["path"] == "lit" else c["row"]
    print("case:", describe(c)); print("impl_output:", impl[i][1])
    print("impl_equals_model:", vals[i][0] == 1, "spec_ok:", vals[i][1] == 1, "class:", KNAMES.get(vals[i][2]))
    return 0 if vals[i][0] == 1 and vals[i][1] == 1 else 1
