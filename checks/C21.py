"""C21 — Aggregates follow SQL NULL and empty-input rules on every path. Theorems: coq/theories/Props/C21.v.
Correspondence: grouped and global aggregates (COUNT(*), COUNT(e), SUM, AVG, MIN, MAX, COUNT(DISTINCT e)) over nullable
int / double (exact dyadic) / string / date columns, with NULL keys, keys -1 and NULL together, all-NULL groups, empty
inputs and 1-3 key columns. Every statement is run in several CONFIGURATIONS that steer the engine onto its different
aggregation paths; every configuration must return the reference bag (Sql/Query.v `group_rows`):
  mem-1batch     memory table, one batch          (fused streaming aggregation over AggregationState / hash aggregate)
  mem-multibatch memory table, 1-3 row batches    (several partial states, merged)
  parquet        Parquet, 1-3 row row groups, several files (morsel aggregation, one partial state per morsel)
  mem-disjoint   as mem-multibatch plus a stats-bearing table that switches the planner's `disjoint_group_hint` on
                 (hash-partitioned per-worker states, finalize_disjoint_states)
  spill          memory table under a 64-byte memory limit (DISTINCT / global / >64-group aggregates take the spilled
                 partition path; the others the fused path with the minimum group budget)"""
import vlib, relcheck, relgen, sqlq
from fractions import Fraction
from relgen import col, lit, tbl

KEY_TYPES = ["i64", "i64", "date", "str", "i32", "f64"]
VAL_TYPES = ["i64", "f64", "str", "date"]          # value columns follow the key columns, in this order
CONFIGS = ["mem-1batch", "mem-multibatch", "parquet", "mem-disjoint", "spill"]
SPILL_LIMIT = 64

def key_value(rng, ty, wide):
    if ty in ("i64", "i32"):
        return rng.choice([-1, -1, 0, 1, 5, 7] + ([3000000] if wide and ty == "i64" else []))
    if ty == "date":
        return ("d", rng.choice([-1, -1, 0, 1, 10957]))
    if ty == "str":
        return rng.choice(["a", "b", "", "ab", "é", "-1"])
    if ty == "f64":
        return ("q", Fraction(rng.choice([-1, 0, 1, 3]), rng.choice([1, 2])))
    raise ValueError(ty)

def split(rng, n, lo=1, hi=3):
    out, left = [], n
    while left > 0:
        k = min(left, rng.randint(lo, hi))
        out.append(k); left -= k
    return out

def gen_base(rng, big=False):
    nk = rng.choice([1, 1, 2, 2, 3])
    ktypes = [rng.choice(KEY_TYPES) for _ in range(nk)]
    types = ktypes + VAL_TYPES
    wide = rng.random() < 0.3
    if big:
        n = rng.choice([90, 140, 330])
        ktypes = (["i64", "i64", "str"])[:nk]
        types = ktypes + VAL_TYPES
        def bigkey():
            return [None if rng.random() < 0.1 else
                    (rng.randint(-3, 100 if i == 0 else 18) if t == "i64" else rng.choice(["a", "b", "", "é"]))
                    for i, t in enumerate(ktypes)]
        pool = None
    else:
        n = rng.choice([0, 1, 2, 3, 5, 8, 12, 20])
        # a small pool of key tuples: always the all-NULL tuple and one carrying -1, so groups repeat
        pool = [[None] * nk, [key_value(rng, t, False) if t not in ("i64", "i32", "date") else (-1 if t != "date" else ("d", -1))
                             for t in ktypes]]
        for _ in range(rng.randint(1, 4)):
            pool.append([None if rng.random() < 0.3 else key_value(rng, t, wide) for t in ktypes])
    null_p = rng.choice([0.0, 0.25, 0.5, 0.8])
    dead = rng.choice(pool) if pool and rng.random() < 0.6 else None      # a group whose value columns are all NULL
    rows = []
    for _ in range(n):
        k = bigkey() if big else list(rng.choice(pool))
        if dead is not None and k == dead:
            vals = [None] * len(VAL_TYPES)
        else:
            vals = [relgen.gen_value(rng, t, null_p) for t in VAL_TYPES]
        rows.append(k + vals)
    return {"name": "ta", "types": types, "rows": rows, "nk": nk}

def agg_choices(nk):
    vi, vf, vs, vd = nk, nk + 1, nk + 2, nk + 3
    return [("ACountStar", lit(1)), ("ACount", col(vi)), ("ACount", col(vs)), ("ASum", col(vi)), ("ASum", col(vf)),
            ("AAvg", col(vi)), ("AAvg", col(vf)), ("AMin", col(vi)), ("AMax", col(vi)), ("AMin", col(vf)), ("AMax", col(vf)),
            ("AMin", col(vs)), ("AMax", col(vs)), ("AMin", col(vd)), ("AMax", col(vd)),
            ("ACountDistinct", col(vi)), ("ACountDistinct", col(vs)), ("ACountDistinct", col(vd))]

def gen_queries(rng, t, nq):
    nk = t["nk"]
    src = tbl(0, t)
    choices = agg_choices(nk)
    plain = [c for c in choices if c[0] != "ACountDistinct"]
    qs = []
    for i in range(nq):
        k = rng.random()
        pool = plain if rng.random() < 0.65 else choices       # DISTINCT aggregates change the physical path
        aggs = rng.sample(pool, rng.randint(1, 4))
        inp, tag = src, ""
        if rng.random() < 0.12:                                  # an input that is empty after filtering
            inp, tag = ("filter", src, ("cmp", "CLt", col(nk), lit(-1000))), "+empty-filter"
        elif rng.random() < 0.12:                                # only the rows whose first key is NULL
            inp, tag = ("filter", src, ("isnull", col(0))), "+null-key-filter"
        if i == 0:
            # a global aggregate with ONE function takes the engine's scalar kernel on a single-batch input
            one = [rng.choice([c for c in choices if c[0] in ("AMin", "AMax", "ASum", "AAvg", "ACount")])]
            qs.append({"q": ("agg", inp, [], one), "kind": "global-single" + tag})
        elif i == 1:
            # ... also over an input with no rows / no non-NULL value
            one = [rng.choice([c for c in choices if c[0] in ("AMin", "AMax", "ASum", "AAvg")])]
            inp = ("filter", src, ("cmp", "CLt", col(nk), lit(-1000))) if rng.random() < 0.5 else ("filter", src, ("isnull", one[0][1]))
            qs.append({"q": ("agg", inp, [], one), "kind": "global-single+no-input"})
        elif k < 0.2:
            qs.append({"q": ("agg", inp, [], aggs), "kind": "global" + tag})
        else:
            j = rng.randint(1, nk)
            keys = [col(c) for c in (range(j) if rng.random() < 0.7 else rng.sample(range(nk), j))]
            qs.append({"q": ("agg", inp, keys, aggs), "kind": f"grouped-{j}key" + tag})
    return qs

def layout(rng, t, cfg):
    t = dict(t)
    n = len(t["rows"])
    t.pop("nk", None)
    extra = []
    if cfg == "mem-1batch" or n == 0:
        t["batch_sizes"] = None
    elif cfg == "spill" and n >= 60:
        # a worker sees > 64 groups in one batch: the fused attempt aborts and the spilled partition path runs
        t["batch_sizes"] = None if n < 300 else [n // 2, n - n // 2]
    elif cfg in ("mem-multibatch", "mem-disjoint", "spill"):
        t["batch_sizes"] = split(rng, n, 1, 3 if n < 60 else 40)
    elif cfg == "parquet":
        t["parquet"] = {"files": split(rng, n, 1, max(1, n // 2)), "row_group": rng.randint(1, 3) if n < 60 else rng.choice([7, 32])}
    if cfg == "mem-disjoint":
        # physical planner: `disjoint_group_hint` looks for ANY registered table with integer min/max statistics on a
        # column of the grouping key's name and a range in [2M, 64M]; this table is never queried
        extra = [{"name": "tz", "types": ["i64"], "rows": [[0], [3000000]], "parquet": {"files": [2], "row_group": 2}}]
    return [t] + extra

def shapes(t, q):
    """input-shape predicates used only to describe deviations in the evidence (never to excuse them)"""
    out = []
    if q[0] != "agg":
        return out
    nk = t["nk"]
    keys = [k[1] for k in q[2]]
    for c in keys:
        vals = [r[c] for r in t["rows"]]
        if t["types"][c] in ("i64", "i32", "date") and None in vals and any(v in (-1, ("d", -1)) for v in vals):
            out.append("null-and-minus-one-key")
            break
    if len(keys) >= 1 and any(all(r[c] is None for c in keys) for r in t["rows"]):
        out.append("all-null-key-row" + ("-multi" if len(keys) > 1 else ""))
    return out

def run(ctx):
    proved = ctx.prove()
    rng = ctx.rng
    nbase, nbig, nq = ctx.n(16, 160), ctx.n(2, 12), ctx.n(7, 10)
    bases = [gen_base(rng) for _ in range(nbase)] + [gen_base(rng, big=True) for _ in range(nbig)]
    plain_groups, spill_groups = [], []
    for bi, t in enumerate(bases):
        qs = gen_queries(rng, t, nq if len(t["rows"]) < 60 else 4)
        for cfg in CONFIGS:
            g = {"tables": layout(rng, t, cfg), "queries": [dict(x, kind=f"{cfg}:{x['kind']}") for x in qs]}
            (spill_groups if cfg == "spill" else plain_groups).append((g, bi, cfg))
    # Over Parquet a multi-key GROUP BY whose key LOOKS unique by footer statistics (range >= rows) although it has duplicates is
    # collapsed by GroupKeyReduction: that is the recorded class ndv-decides-uniqueness / ndv-unique-key owned by C18, C04 and
    # C03 (their checks generate and excuse it by a Coq predicate). This property is about aggregate values, so such statements
    # are not generated for the Parquet configuration (counted below); the memory configurations keep them.
    import importlib.util, os
    _sp = importlib.util.spec_from_file_location("chk_C04_shared", os.path.join(os.path.dirname(os.path.abspath(__file__)), "C04.py"))
    c04 = importlib.util.module_from_spec(_sp); _sp.loader.exec_module(c04)
    skipped_ndv = 0
    for g, bi, cfg in plain_groups:
        if cfg == "parquet":
            keep = [x for x in g["queries"] if not c04.ndv_unique_shape(x["q"], g["tables"], lambda name: True)]
            skipped_ndv += len(g["queries"]) - len(keep)
            g["queries"] = keep
    plain_groups = [(g, bi, cfg) for g, bi, cfg in plain_groups if g["queries"]]
    ctx.cov["parquet_statements_left_to_C18_C04_C03 (ndv-unique-key shape)"] = skipped_ndv
    import time
    t1 = time.time()
    res_a = relcheck.run_rel(ctx, "c21a", [g for g, _, _ in plain_groups])
    t2 = time.time()
    res_b = relcheck.run_rel(ctx, "c21b", [g for g, _, _ in spill_groups], extra_case={"memory_limit": SPILL_LIMIT})
    ctx.cov["timing_s"] = {"proofs": round(t1 - ctx.t0, 1), "four_configurations": round(t2 - t1, 1), "spill_configuration": round(time.time() - t2, 1)}
    for r in res_a:
        r["base"], r["cfg"] = plain_groups[r["group"]][1], plain_groups[r["group"]][2]
    for r in res_b:
        r["base"], r["cfg"] = spill_groups[r["group"]][1], spill_groups[r["group"]][2]
    results = res_a + res_b
    ran, errs = relcheck.judge_rel(ctx, results)

    by_cfg = {c: {"statements": 0, "ran": 0, "equal_reference": 0, "engine_errors": 0} for c in CONFIGS}
    dev = {}
    for r in results:
        d = by_cfg[r["cfg"]]
        d["statements"] += 1
        if r["status"] == "ran":
            d["ran"] += 1
            d["equal_reference"] += 1 if r["ok"] else 0
            if not r["ok"]:
                key = ",".join(shapes(bases[r["base"]], r["q"])) or "other"
                e = dev.setdefault(key, {"count": 0, "by_configuration": {}, "first": None})
                e["count"] += 1
                e["by_configuration"][r["cfg"]] = e["by_configuration"].get(r["cfg"], 0) + 1
                if e["first"] is None:
                    e["first"] = {"sql": r["sql"], "cfg": r["cfg"], "rows": bases[r["base"]]["rows"][:30],
                                  "types": bases[r["base"]]["types"], "detail": r.get("detail")}
        else:
            d["engine_errors"] += 1
    # the same statement must give the same bag in every configuration (implied by equality with the reference; counted)
    per_stmt = {}
    for r in results:
        if r["status"] == "ran":
            per_stmt.setdefault((r["base"], str(r["q"])), []).append(r["ok"])
    kinds = {}
    for r in results:
        k = r["kind"].split(":", 1)[1]
        kinds[k] = kinds.get(k, 0) + 1
    fns = {}
    for r in results:
        for fn, _ in r["q"][3]:
            fns[fn] = fns.get(fn, 0) + 1
    ctx.cov["input_distribution"] = {
        "by_configuration": by_cfg, "by_statement_kind": kinds, "by_function": fns,
        "base_tables": len(bases), "empty_tables": sum(1 for t in bases if not t["rows"]),
        "tables_with_null_and_minus_one_in_a_key": sum(1 for t in bases if any(
            None in [r[c] for r in t["rows"]] and any(r[c] in (-1, ("d", -1)) for r in t["rows"]) for c in range(t["nk"]))),
        "tables_with_all_null_key_row": sum(1 for t in bases if any(all(r[c] is None for c in range(t["nk"])) for r in t["rows"])),
        "tables_with_all_null_value_group": sum(1 for t in bases if any(all(v is None for v in r[t["nk"]:]) for r in t["rows"])),
        "key_columns": {str(k): sum(1 for t in bases if t["nk"] == k) for k in (1, 2, 3)},
        "statements_run_in_all_configurations": sum(1 for v in per_stmt.values() if len(v) == len(CONFIGS)),
        "statements_equal_reference_in_all_configurations": sum(1 for v in per_stmt.values() if len(v) == len(CONFIGS) and all(v)),
        "spill_memory_limit_bytes": SPILL_LIMIT}
    if dev:
        ctx.cov["deviations_by_input_shape"] = dev
    ctx.cov["distinct_nontrivial"] = len({(r["cfg"], r["base"], r["sql"]) for r in ran if r["n_sql_rows"] > 0})
    for r in results[:2] + res_b[:1]:
        ctx.sample({"sql": r["sql"], "cfg": r["cfg"], "types": bases[r["base"]]["types"], "rows": bases[r["base"]]["rows"][:12]})
    if not proved and not ctx.violations:
        ctx.proof_broken_violation(f"{len(results)} aggregate statements")
    return ctx.finish(
        rule="tables of 0-20 rows (and 90-330 rows with >64 groups) with 1-3 key columns over int/int32/date/string/double "
             "(key pool always contains the all-NULL tuple and a tuple carrying -1) and value columns int, double, string, date "
             "(NULL density 0-80%, one group with all values NULL); statements: global and grouped (1-3 keys) aggregates with "
             "1-4 of COUNT(*), COUNT, SUM, AVG, MIN, MAX, COUNT(DISTINCT) over the value columns, optionally over an input "
             "filtered to nothing or to the NULL-key rows; each statement x 5 configurations (see module docstring); "
             "non-trivial = reference result non-empty, distinct by (configuration, table, statement)",
        assumptions=["doubles are exact dyadic values (sums exact in binary64; AVG compared to 1e-12 relative)",
                     "integer sums stay far from the i64 range",
                     "which physical path a configuration takes is read off the engine source and confirmed by its debug "
                     "output (QE_WORKER_DEBUG / QE_SPILL_DEBUG / AGG_TIMING), not asserted per statement"])

def replay(ctx, obj):
    print("failing case:", obj.get("case")); return run(ctx)
