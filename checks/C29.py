"""C29 — no SQL input crashes or hangs the engine.  PARTIAL / level "other": a theorem cannot carry "no panic anywhere";
this check is the search part of DESIGN §C29: grammar-generated and mutated SQL text through the real
ExecutionContext::sql under catch_unwind with a per-statement wall-clock limit, one subprocess per batch so that a hang
or an abort (stack overflow) is attributed to the statement that caused it. Outcome classes Ok / Err / panic / timeout /
abort; the last three are violations unless the statement's SHAPE falls in a class recorded in known_findings.txt."""
import json, os, re, subprocess, time
import vlib

TIMEOUT_MS = 10_000
BATCH = 300

# ---------------------------------------------------------------- grammar
COLS = {"t1": ["a", "b", "c", "d", "e"], "t2": ["a", "x", "y"], "t3": ["k", "v"]}
INT_LITS = ["0", "1", "-1", "2", "7", "9223372036854775807", "-9223372036854775808", "9223372036854775808",
            "2147483647", "-2147483648", "4294967296", "18446744073709551615", "99999999999999999999999999999999999999999"]
NUM_LITS = INT_LITS + ["0.0", "1.5", "-0.0", "1e308", "1e309", "1e-400", "1e400", ".5", "5.", "0." + "0" * 60 + "1",
                       "123456789012345678901234567890.123456789", "1e+", "0x10", "1_000"]
STR_LITS = ["''", "'a'", "'%'", "'_'", "'a%b_'", "'\\'", "'é'", "'\u0000'", "'" + "x" * 300 + "'", "'1'", "'2020-01-01'",
            "'9999-99-99'", "'\U0001F600'", "'a''b'", "'NaN'", "'inf'"]
FUNCS = ["abs", "upper", "lower", "length", "coalesce", "nullif", "round", "floor", "ceil", "sqrt", "ln", "exp", "power",
         "substr", "substring", "trim", "concat", "replace", "extract", "date_trunc", "year", "cast", "sum", "count", "avg",
         "min", "max", "stddev", "row_number", "rank", "lag", "nosuchfn", "l2_distance", "cosine_distance", "greatest",
         "least", "mod", "sign", "left", "right", "strpos", "to_date", "now", "random"]
TYPES = ["INT", "BIGINT", "SMALLINT", "DOUBLE", "FLOAT", "VARCHAR", "TEXT", "DATE", "BOOLEAN", "TIMESTAMP", "DECIMAL(10,2)",
         "DECIMAL(38,37)", "DECIMAL(100,50)", "BLOB", "INTERVAL", "NOSUCHTYPE"]


def g_expr(rng, d, tabs):
    k = rng.random()
    if d <= 0 or k < 0.25:
        c = rng.random()
        if c < 0.45:
            t = rng.choice(tabs)
            col = rng.choice(COLS.get(t, ["a"]) + ["nope"])
            return col if rng.random() < 0.6 else f"{t}.{col}"
        if c < 0.7:
            return rng.choice(NUM_LITS)
        if c < 0.85:
            return rng.choice(STR_LITS)
        return rng.choice(["NULL", "TRUE", "FALSE", "DATE '2020-02-30'", "DATE '1970-01-01'", "INTERVAL '1' DAY", "*", "?", "$1",
                           "[1.0, 2.0]", "ARRAY[1, 'a']", "CURRENT_DATE"])
    e = lambda: g_expr(rng, d - 1, tabs)
    if k < 0.45:
        return f"({e()} {rng.choice(['+', '-', '*', '/', '%', '||', '=', '<>', '<', '<=', '>', '>=', 'AND', 'OR', '^', '&', '|', '<<'])} {e()})"
    if k < 0.5:
        return f"({rng.choice(['-', '+', 'NOT ', '~'])}{e()})"
    if k < 0.6:
        f = rng.choice(FUNCS)
        if f == "cast":
            return f"CAST({e()} AS {rng.choice(TYPES)})"
        if f == "extract":
            return f"EXTRACT({rng.choice(['YEAR', 'MONTH', 'DAY', 'EPOCH', 'NOPE'])} FROM {e()})"
        args = ", ".join(e() for _ in range(rng.choice([0, 1, 1, 2, 2, 3])))
        if f in ("row_number", "rank", "lag", "sum", "count") and rng.random() < 0.4:
            return (f"{f}({args}) OVER ({rng.choice(['', 'PARTITION BY ' + e(), 'ORDER BY ' + e(), 'ORDER BY ' + e() + ' ROWS BETWEEN 1 PRECEDING AND 18446744073709551615 FOLLOWING'])})")
        if f in ("count", "sum") and rng.random() < 0.2:
            return f"{f}(DISTINCT {args or '*'})"
        return f"{f}({args})"
    if k < 0.68:
        n = rng.randint(1, 3)
        return ("CASE " + (e() + " " if rng.random() < 0.3 else "") +
                " ".join(f"WHEN {e()} THEN {e()}" for _ in range(n)) + (f" ELSE {e()}" if rng.random() < 0.6 else "") + " END")
    if k < 0.76:
        return f"({e()} {rng.choice(['', 'NOT '])}IN ({', '.join(e() for _ in range(rng.randint(0, 4)))}))"
    if k < 0.82:
        return f"({e()} {rng.choice(['', 'NOT '])}BETWEEN {e()} AND {e()})"
    if k < 0.88:
        return f"({e()} {rng.choice(['LIKE', 'NOT LIKE', 'ILIKE', 'SIMILAR TO'])} {rng.choice(STR_LITS)}{rng.choice(['', '', ' ESCAPE ' + rng.choice(STR_LITS)])})"
    if k < 0.92:
        return f"({e()} IS {rng.choice(['', 'NOT '])}{rng.choice(['NULL', 'TRUE', 'FALSE', 'DISTINCT FROM ' + e()])})"
    sub = g_select(rng, d - 1)
    return rng.choice([f"({sub})", f"EXISTS ({sub})", f"({e()} IN ({sub}))", f"({e()} = ANY ({sub}))", f"({e()} > ALL ({sub}))"])


def g_from(rng, d):
    tabs = []

    def one():
        k = rng.random()
        if d > 0 and k < 0.15:
            a = f"s{rng.randint(0, 9)}"
            tabs.append(a)
            return f"({g_select(rng, d - 1)}) AS {a}"
        t = rng.choice(["t1", "t2", "t3", "t1", "t2", "nosuchtable", "T1"])
        if k < 0.5:
            a = f"q{rng.randint(0, 9)}"
            COLS.setdefault(a, COLS.get(t.lower(), ["a"]))
            tabs.append(a)
            return f"{t} AS {a}"
        tabs.append(t)
        return t
    s = one()
    for _ in range(rng.choice([0, 0, 0, 1, 1, 2])):
        jt = rng.choice(["JOIN", "LEFT JOIN", "RIGHT JOIN", "FULL OUTER JOIN", "CROSS JOIN", ",", "NATURAL JOIN", "LEFT SEMI JOIN",
                         "JOIN LATERAL"])
        r = one()
        if jt in ("CROSS JOIN", ",", "NATURAL JOIN"):
            s += f" {jt} {r}"
        else:
            cond = rng.choice([f"ON {g_expr(rng, 1, tabs)}", "USING (a)", "ON TRUE", "", "ON 1"])
            s += f" {jt} {r} {cond}"
    return s, tabs


def g_select(rng, d):
    frm, tabs = g_from(rng, d)
    if rng.random() < 0.1:
        frm, tabs = None, ["t1"]
    items = ", ".join(g_expr(rng, min(d, 2), tabs) + (f" AS c{i}" if rng.random() < 0.4 else "") for i in range(rng.randint(1, 3)))
    if rng.random() < 0.15:
        items = rng.choice(["*", "t1.*", "*, *", "DISTINCT *", "DISTINCT ON (a) a"])
    s = f"SELECT {rng.choice(['', '', '', 'DISTINCT ', 'ALL '])}{items}"
    if frm:
        s += f" FROM {frm}"
    if rng.random() < 0.5:
        s += f" WHERE {g_expr(rng, min(d, 2), tabs)}"
    if rng.random() < 0.3:
        s += " GROUP BY " + ", ".join(rng.choice([g_expr(rng, 1, tabs), "1", "99", "ROLLUP(a)", "GROUPING SETS ((a), ())", "ALL"])
                                      for _ in range(rng.randint(1, 2)))
        if rng.random() < 0.4:
            s += f" HAVING {g_expr(rng, 1, tabs)}"
    if rng.random() < 0.3:
        s += " ORDER BY " + ", ".join(rng.choice([g_expr(rng, 1, tabs), "1", "0", "99"]) + rng.choice(["", " ASC", " DESC", " NULLS FIRST", " DESC NULLS LAST"])
                                      for _ in range(rng.randint(1, 2)))
    if rng.random() < 0.3:
        s += f" LIMIT {rng.choice(['0', '1', '5', '18446744073709551615', '18446744073709551616', '-1', 'ALL', 'NULL', '1+1', 'a', '1.5'])}"
        if rng.random() < 0.5:
            s += f" OFFSET {rng.choice(['0', '1', '18446744073709551615', '9223372036854775808', '-1'])}"
    return s


def g_statement(rng):
    k = rng.random()
    d = rng.choice([0, 1, 1, 2, 2, 3])
    if k < 0.7:
        return g_select(rng, d)
    if k < 0.8:
        op = rng.choice(["UNION", "UNION ALL", "INTERSECT", "EXCEPT", "INTERSECT ALL", "EXCEPT ALL", "MINUS"])
        return f"{g_select(rng, d)} {op} {g_select(rng, d)}" + (" ORDER BY 1 LIMIT 3" if rng.random() < 0.3 else "")
    if k < 0.88:
        return (f"WITH {rng.choice(['', 'RECURSIVE '])}w AS ({g_select(rng, d)}){rng.choice(['', ', w2 AS (SELECT * FROM w)'])} "
                f"SELECT * FROM {rng.choice(['w', 'w2', 'w JOIN w AS ww ON TRUE', 'w, t1'])}")
    if k < 0.93:
        return "VALUES " + ", ".join("(" + ", ".join(rng.choice(NUM_LITS + STR_LITS + ["NULL"]) for _ in range(rng.randint(1, 3))) + ")"
                                     for _ in range(rng.randint(1, 3)))
    return rng.choice([
        "INSERT INTO t1 VALUES (1, 'a', 1.0, DATE '2020-01-01', TRUE)", "UPDATE t1 SET a = 1", "DELETE FROM t1", "DROP TABLE t1",
        "CREATE TABLE z (a INT)", "CREATE VIEW vv AS SELECT 1", "EXPLAIN SELECT * FROM t1", "EXPLAIN ANALYZE SELECT a FROM t1",
        "MERGE INTO t1 USING t2 ON t1.a = t2.a WHEN MATCHED THEN DELETE", "SELECT * FROM t1 PIVOT (SUM(a) FOR b IN ('a'))",
        "SELECT * FROM t1 TABLESAMPLE (10 PERCENT)", "SHOW TABLES", "DESCRIBE t1", "SET x = 1", "BEGIN", "COMMIT", "CALL f()",
        "SELECT 1; SELECT 2", ";", "", " ", "SELECT", "SELECT FROM", "SELECT * FROM", "SELECT 1 FROM t1 WHERE", "COPY t1 TO 'x'",
        "SELECT * FROM t1 FOR UPDATE", "SELECT * FROM t1 AS OF 1", "TABLE t1", "SELECT a FROM t1 WINDOW w AS (ORDER BY a)",
        "SELECT * FROM t1 MATCH_RECOGNIZE (PATTERN (A))", "SELECT TOP 3 a FROM t1", "SELECT a FROM t1 FETCH FIRST 2 ROWS ONLY",
        "SELECT a FROM t1 QUALIFY row_number() OVER (ORDER BY a) = 1", "SELECT * FROM read_parquet('/nonexistent')",
        "SELECT * FROM 't1'", "SELECT * FROM \"t1\"", "SELECT \"a\" FROM t1", "SELECT `a` FROM t1", "SELECT [a] FROM t1"])


# ---------------------------------------------------------------- stress shapes (nesting metric = n)
def deep(kind, n):
    if kind == "paren":
        return "SELECT " + "(" * n + "1" + ")" * n
    if kind == "paren_where":
        return "SELECT a FROM t1 WHERE " + "(" * n + "a = 1" + ")" * n
    if kind == "subquery":
        return "SELECT * FROM " + "(SELECT * FROM " * n + "t1" + ") AS s" * n
    if kind == "scalar_subquery":
        return "SELECT " + "(SELECT " * n + "1" + ")" * n
    if kind == "case":
        return "SELECT " + "CASE WHEN a = 1 THEN " * n + "1" + " ELSE 0 END" * n + " FROM t1"
    if kind == "not":
        return "SELECT a FROM t1 WHERE " + "NOT " * n + "e"
    if kind == "neg":
        return "SELECT " + "- " * n + "a FROM t1"
    if kind == "plus_chain":
        return "SELECT 1" + " + 1" * n
    if kind == "and_chain":
        return "SELECT a FROM t1 WHERE a = 0" + " AND a = 0" * n
    if kind == "or_chain":
        return "SELECT a FROM t1 WHERE a = 0" + " OR a = 1" * n
    if kind == "concat_chain":
        return "SELECT b" + " || b" * n + " FROM t1"
    if kind == "in_list":
        return "SELECT a FROM t1 WHERE a IN (" + ", ".join(str(i) for i in range(n)) + ")"
    if kind == "union_chain":
        return "SELECT 1" + " UNION ALL SELECT 1" * n
    if kind == "join_chain":
        return "SELECT count(*) FROM t3 AS j0" + "".join(f" JOIN t3 AS j{i} ON j{i}.k = j{i - 1}.k" for i in range(1, n + 1))
    if kind == "cte_chain":
        return "WITH w0 AS (SELECT 1 AS a)" + "".join(f", w{i} AS (SELECT a FROM w{i - 1})" for i in range(1, n + 1)) + f" SELECT * FROM w{n}"
    if kind == "func":
        return "SELECT " + "abs(" * n + "1" + ")" * n
    if kind == "cast":
        return "SELECT " + "CAST(" * n + "1" + " AS BIGINT)" * n
    if kind == "select_items":
        return "SELECT " + ", ".join("a" for _ in range(n)) + " FROM t1"
    if kind == "between":
        return "SELECT a FROM t1 WHERE a " + "BETWEEN 0 AND 1 AND a " * n + "= 1"
    if kind == "values_rows":
        return "VALUES " + ", ".join("(1)" for _ in range(n))
    if kind == "order_keys":
        return "SELECT a FROM t1 ORDER BY " + ", ".join("a" for _ in range(n))
    if kind == "long_ident":
        return "SELECT " + "a" * n + " FROM t1"
    if kind == "long_string":
        return "SELECT '" + "x" * n + "' LIKE '" + "%x" * min(n, 2000) + "'"
    raise ValueError(kind)


DEEP_KINDS = ["paren", "paren_where", "subquery", "scalar_subquery", "case", "not", "neg", "plus_chain", "and_chain", "or_chain",
              "concat_chain", "in_list", "union_chain", "join_chain", "cte_chain", "func", "cast", "select_items", "between",
              "values_rows", "order_keys", "long_ident", "long_string"]
DEEP_MAX = {"paren": 2000, "paren_where": 2000, "subquery": 500, "scalar_subquery": 500, "case": 500, "not": 500, "neg": 500,
            "plus_chain": 5000, "and_chain": 5000, "or_chain": 5000, "concat_chain": 2000, "in_list": 5000, "union_chain": 1000,
            "join_chain": 60, "cte_chain": 200, "func": 500, "cast": 500, "select_items": 5000, "between": 500,
            "values_rows": 5000, "order_keys": 2000, "long_ident": 100000, "long_string": 100000}

DIRECTED = [
    "SELECT 9223372036854775807 + 1", "SELECT -9223372036854775808 - 1", "SELECT 9223372036854775807 * 2",
    "SELECT (-9223372036854775807 - 1) / -1", "SELECT (-9223372036854775807 - 1) % -1", "SELECT -(-9223372036854775807 - 1)",
    "SELECT a + 1 FROM t1", "SELECT a - 1 FROM t1", "SELECT a * a FROM t1", "SELECT a / -1 FROM t1", "SELECT a % -1 FROM t1", "SELECT -a FROM t1",
    "SELECT a / 0 FROM t1", "SELECT a % 0 FROM t1", "SELECT c / 0 FROM t1", "SELECT c % 0 FROM t1", "SELECT 1 / 0", "SELECT 1 % 0", "SELECT 1.0 / 0",
    "SELECT x + x FROM t2", "SELECT x * x FROM t2", "SELECT -x FROM t2", "SELECT x / -1 FROM t2",
    "SELECT SUM(a) FROM t1", "SELECT AVG(a) FROM t1", "SELECT SUM(a * a) FROM t1", "SELECT SUM(x) FROM t2", "SELECT a, SUM(a) FROM t1 GROUP BY a",
    "SELECT MIN(a), MAX(a), COUNT(DISTINCT a) FROM t1", "SELECT SUM(c), AVG(c), MIN(c), MAX(c) FROM t1",
    "SELECT * FROM t1 LIMIT 18446744073709551615 OFFSET 18446744073709551615", "SELECT * FROM t1 LIMIT 18446744073709551615 OFFSET 1",
    "SELECT * FROM t1 ORDER BY a LIMIT 18446744073709551615 OFFSET 18446744073709551615", "SELECT * FROM t1 ORDER BY a LIMIT 9223372036854775807 OFFSET 9223372036854775807",
    "SELECT * FROM t1 LIMIT 18446744073709551616", "SELECT * FROM t1 LIMIT 1 OFFSET 18446744073709551616", "SELECT * FROM t1 LIMIT -1",
    "SELECT a FROM t1 ORDER BY a LIMIT 18446744073709551615", "SELECT DISTINCT a FROM t1 LIMIT 18446744073709551615 OFFSET 3",
    "SELECT abs(a) FROM t1", "SELECT abs(x) FROM t2", "SELECT abs(-9223372036854775807 - 1)", "SELECT round(c, 400) FROM t1", "SELECT round(c, -400) FROM t1",
    "SELECT round(c, 9223372036854775807) FROM t1", "SELECT power(a, a) FROM t1", "SELECT power(2, 4000)", "SELECT exp(c), ln(c), sqrt(c) FROM t1",
    "SELECT substr(b, 9223372036854775807) FROM t1", "SELECT substr(b, -9223372036854775808, 9223372036854775807) FROM t1", "SELECT substr(b, 0, -1) FROM t1",
    "SELECT substring(b FROM 2 FOR 18446744073709551615) FROM t1", "SELECT left(b, -9223372036854775808) FROM t1", "SELECT right(b, 9223372036854775807) FROM t1",
    "SELECT repeat(b, 1000000) FROM t1", "SELECT lpad(b, 2000000, 'x') FROM t1", "SELECT rpad(b, -1, '') FROM t1",
    "SELECT d + 2147483647 FROM t1", "SELECT d - 2147483647 FROM t1", "SELECT d + a FROM t1", "SELECT d - d FROM t1", "SELECT d + INTERVAL '1000000000' YEAR FROM t1",
    "SELECT EXTRACT(YEAR FROM d) FROM t1", "SELECT date_trunc('month', d) FROM t1", "SELECT CAST(d AS VARCHAR) FROM t1", "SELECT CAST(d AS TIMESTAMP) FROM t1", "SELECT CAST(b AS DATE) FROM t1",
    "SELECT CAST(a AS INT) FROM t1", "SELECT CAST(a AS SMALLINT) FROM t1", "SELECT CAST(c AS BIGINT) FROM t1", "SELECT CAST(c AS INT) FROM t1", "SELECT CAST(b AS BIGINT) FROM t1",
    "SELECT CAST(a AS DECIMAL(38,37)) FROM t1", "SELECT CAST(c AS DECIMAL(10,2)) FROM t1", "SELECT CAST(a AS DATE) FROM t1", "SELECT CAST(e AS INT) FROM t1",
    "SELECT CAST('' AS INT)", "SELECT CAST('9223372036854775808' AS BIGINT)", "SELECT CAST(1e400 AS DOUBLE)", "SELECT CAST(1e19 AS BIGINT)",
    "SELECT 1e400", "SELECT 99999999999999999999999999999999999999999999 + 1", "SELECT 0." + "0" * 400 + "1", "SELECT 1" + "0" * 400, "SELECT 1." + "1" * 400,
    "SELECT b LIKE b FROM t1", "SELECT b LIKE '%' || b || '%' FROM t1", "SELECT b LIKE '\\' FROM t1", "SELECT b LIKE 'a' ESCAPE '' FROM t1", "SELECT b LIKE '%%%%%%%%%%%%%%%%%%%%%%%%%%%%%%%%%%%%%%%%a' FROM t1",
    "SELECT 'a' + 1", "SELECT 'a' * 'b'", "SELECT d + e FROM t1", "SELECT e + 1 FROM t1", "SELECT b > 1 FROM t1", "SELECT a = 'x' FROM t1", "SELECT d = 1 FROM t1", "SELECT NOT a FROM t1",
    "SELECT SUM(b) FROM t1", "SELECT AVG(d) FROM t1", "SELECT MAX(e) FROM t1", "SELECT SUM(e) FROM t1", "SELECT COUNT(*) FROM t1 GROUP BY c", "SELECT c, COUNT(*) FROM t1 GROUP BY c ORDER BY c",
    "SELECT * FROM t1 ORDER BY c", "SELECT * FROM t1 ORDER BY b DESC NULLS FIRST, c", "SELECT DISTINCT c FROM t1", "SELECT c FROM t1 UNION SELECT c FROM t1",
    "SELECT * FROM t1 JOIN t2 ON t1.c = t2.x", "SELECT * FROM t1 JOIN t2 ON t1.b = t2.a", "SELECT * FROM t1 JOIN t2 ON t1.a = t2.x", "SELECT * FROM t1 NATURAL JOIN t2",
    "SELECT * FROM t1, t2, t3", "SELECT * FROM t1 JOIN t2 USING (a) JOIN t3 ON t3.k = t2.y", "SELECT * FROM t1 WHERE a IN (SELECT a FROM t2 WHERE t2.a = t1.a)",
    "SELECT (SELECT a FROM t2) FROM t1", "SELECT (SELECT a, x FROM t2 LIMIT 1) FROM t1", "SELECT * FROM t1 WHERE EXISTS (SELECT 1 FROM t2 WHERE t2.a > t1.a AND EXISTS (SELECT 1 FROM t3 WHERE t3.v = t1.c))",
    "SELECT a, (SELECT MAX(x) FROM t2 WHERE t2.a = t1.a) FROM t1 GROUP BY a", "SELECT a FROM t1 GROUP BY a HAVING (SELECT COUNT(*) FROM t2) > a",
    "SELECT row_number() OVER () FROM t1", "SELECT SUM(a) OVER (ORDER BY a ROWS BETWEEN 9223372036854775807 PRECEDING AND CURRENT ROW) FROM t1",
    "SELECT lag(a, 9223372036854775807) OVER (ORDER BY a) FROM t1", "SELECT lag(a, -1) OVER (ORDER BY a) FROM t1", "SELECT ntile(0) OVER (ORDER BY a) FROM t1", "SELECT nth_value(a, 0) OVER (ORDER BY a) FROM t1",
    "SELECT l2_distance([1.0], [1.0, 2.0])", "SELECT cosine_distance([], [])", "SELECT l2_distance(b, [1.0]) FROM t1", "SELECT l2_distance([1e38, 1e38], [-1e38, -1e38])",
    "SELECT * FROM t3", "SELECT MAX(v), MIN(k), SUM(v), AVG(v), COUNT(*) FROM t3", "SELECT * FROM t3 ORDER BY v LIMIT 1", "SELECT k, SUM(v) FROM t3 GROUP BY k", "SELECT * FROM t1 LEFT JOIN t3 ON t1.b = t3.k",
    "SELECT a AS a, a AS a FROM t1", "SELECT a AS b, b AS a FROM t1 ORDER BY a", "SELECT t1.a, t2.a FROM t1, t2 ORDER BY a", "SELECT a FROM t1, t2", "SELECT * FROM t1 AS t2, t2 AS t1",
    "SELECT a FROM t1 GROUP BY 1, 1, 1", "SELECT a FROM t1 ORDER BY 1, 1, 1", "SELECT 1 FROM t1 GROUP BY a ORDER BY b", "SELECT COUNT(*) FROM t1 WHERE COUNT(*) > 1", "SELECT SUM(SUM(a)) FROM t1",
    "SELECT * FROM t1 WHERE a = ANY (SELECT a FROM t2) OR a > ALL (SELECT x FROM t2)", "SELECT CASE WHEN 1 THEN 1 END", "SELECT CASE a WHEN 'x' THEN 1 ELSE 'y' END FROM t1", "SELECT COALESCE()", "SELECT NULLIF(1)", "SELECT COALESCE(a, b, c, d, e) FROM t1",
    "\u0000", "﻿SELECT 1", "SELECT 1", "SELECT 1 -- ‮", "SELECT '퟿\U0010ffff'", "SELECT \"\U0001F600\" FROM t1", "/* unterminated", "SELECT 'unterminated", "SELECT \"unterminated", "SELECT $$x$$", "SELECT 1 /* nested /* c */ */",
]


# ---------------------------------------------------------------- mutation
ALPHABET = list(" \t\n\r()[]{},.;:'\"`\\/*-+=<>!%&|^~?@#$_0123456789abcxyzSELCTFROMWHN") + ["\u0000", "é", "‮", "﻿",
            "\U0001F600", "́", "￿", " ", "\x7f", "\x1b"]
TOKEN_RE = re.compile(r"\s+|\w+|'[^']*'|.", re.S)


def mutate(rng, s):
    k = rng.random()
    cs = list(s)
    if not cs:
        return rng.choice(ALPHABET)
    if k < 0.3:            # character flips
        for _ in range(rng.randint(1, 4)):
            cs[rng.randrange(len(cs))] = rng.choice(ALPHABET)
        return "".join(cs)
    if k < 0.45:           # truncation
        return s[:rng.randrange(len(cs))]
    if k < 0.6:            # deletion of a span
        i = rng.randrange(len(cs)); j = min(len(cs), i + rng.randint(1, 8))
        return "".join(cs[:i] + cs[j:])
    if k < 0.7:            # insertion
        i = rng.randrange(len(cs) + 1)
        return "".join(cs[:i] + [rng.choice(ALPHABET) for _ in range(rng.randint(1, 5))] + cs[i:])
    toks = TOKEN_RE.findall(s)
    if k < 0.8 and len(toks) > 2:     # token swap
        i, j = rng.randrange(len(toks)), rng.randrange(len(toks))
        toks[i], toks[j] = toks[j], toks[i]
        return "".join(toks)
    if k < 0.9 and toks:              # token duplication / repetition
        i = rng.randrange(len(toks))
        return "".join(toks[:i] + [toks[i]] * rng.choice([2, 3, 50]) + toks[i + 1:])
    i = rng.randrange(len(toks))      # token replaced by a keyword / literal
    toks[i] = rng.choice(["SELECT", "FROM", "WHERE", "(", ")", "NULL", ",", "*", "AS", "JOIN", "ON", "BY", "'", "--", "/*", "1e999", "9223372036854775808"])
    return "".join(toks)


# ---------------------------------------------------------------- shape metric and classes
def paren_depth(sql):
    depth = best = 0
    for ch in sql:
        if ch == "(":
            depth += 1; best = max(best, depth)
        elif ch == ")":
            depth = max(0, depth - 1)
    return best


def chain_length(sql):
    """length of the longest run of one repeated operator / keyword token (AND, OR, +, ||, NOT, unary minus ...)"""
    counts = {}
    for m in re.finditer(r"\b(AND|OR|NOT|CASE|UNION|BETWEEN)\b|\|\||[-+*/%]", sql, re.I):
        tok = m.group(0).upper()
        counts[tok] = counts.get(tok, 0) + 1
    return max(list(counts.values()) + [0])


def nesting(sql):
    return max(paren_depth(sql), chain_length(sql))


PAREN_CLASS_DEPTH = 48      # sqlparser's recursion limit (50) is reached here: see class deep-nesting
CHAIN_CLASS_LENGTH = 900    # stack overflow found by bisection at ~3840 terms on an 8 MiB stack (~960 on a 2 MiB worker)
JOIN_CLASS_COUNT = 12


def classify(sql):
    """recorded classes, decided by the statement's shape alone (table contents are fixed: t1.a holds i64::MIN/MAX,
    t1.d holds the extreme Date32 values)"""
    if paren_depth(sql) >= PAREN_CLASS_DEPTH:
        return "deep-nesting"
    if chain_length(sql) >= CHAIN_CLASS_LENGTH:
        return "long-chain"
    if len(re.findall(r"\bJOIN\b", sql, re.I)) >= JOIN_CLASS_COUNT:
        return "join-cost-overflow"
    if re.search(r"\babs\s*\(", sql, re.I):
        return "abs-int-min"
    if re.search(r"\bas\s+timestamp\b", sql, re.I) and re.search(r"\bd\b", sql):
        return "date-extreme"    # only the arrow-cast Date32 -> Timestamp overflow is left (e607feb repaired the engine's own sites)
    return None


# ---------------------------------------------------------------- driver
def _limits():
    # guard for the shared machine only: a statement that needs more than 16 GiB of address space dies as `abort`
    import resource
    resource.setrlimit(resource.RLIMIT_AS, (16 << 30, 16 << 30))
    resource.setrlimit(resource.RLIMIT_CORE, (0, 0))


def run_batch(binary, stmts, stack_kib=None, stop_after_timeout=False):
    """stmts: list of (id, sql). Returns {id: outcome dict}. Restarts the process after a timeout or an abort.
    stop_after_timeout: the statements are one shape in increasing size; after the first timeout the larger ones are
    not run (outcome "skipped"): each would cost the full limit again."""
    out = {}
    todo = list(stmts)
    while todo:
        cfg = {"timeout_ms": TIMEOUT_MS}
        if stack_kib:
            cfg["stack_kib"] = stack_kib
        inp = json.dumps({"config": cfg}) + "\n" + "".join(json.dumps({"id": i, "sql": s}) + "\n" for i, s in todo)
        try:
            p = subprocess.run([binary], input=inp, capture_output=True, text=True, errors="replace",
                               timeout=TIMEOUT_MS / 1000 * 3 + len(todo) * 2 + 60, preexec_fn=_limits)
            rc, so, se = p.returncode, p.stdout, p.stderr
        except subprocess.TimeoutExpired as e:
            rc, so, se = -999, (e.stdout or b"").decode("utf-8", "replace") if isinstance(e.stdout, bytes) else (e.stdout or ""), "driver timeout"
        started = None
        for line in so.split("\n"):
            if not line.strip():
                continue
            try:
                o = json.loads(line)
            except Exception:
                continue
            if o.get("start"):
                started = o["id"]
            elif "outcome" in o:
                out[o["id"]] = o
                if started == o["id"]:
                    started = None
        if started is not None and started not in out:
            sig = -rc if rc < 0 else rc
            out[started] = {"id": started, "outcome": "abort", "ms": None,
                            "detail": f"process died (exit/signal {sig}): {se[-200:].strip()}"}
        done = set(out)
        rest = [(i, s) for i, s in todo if i not in done]
        if len(rest) == len(todo):        # no progress: the process cannot even start
            for i, s in rest:
                out[i] = {"id": i, "outcome": "abort", "ms": None, "detail": f"harness made no progress: {se[-200:]}"}
            break
        if stop_after_timeout and any(o["outcome"] == "timeout" for o in out.values()):
            for i, s in rest:
                out[i] = {"id": i, "outcome": "skipped", "ms": None, "detail": "a smaller instance of this shape already timed out"}
            break
        todo = rest
    return out


def find_threshold(binary, kind, hi, lo=1, resolution=1):
    """smallest n in lo..hi (by bisection, assuming monotonicity; up to `resolution`) at which deep(kind, n) panics / aborts /
    times out; None if deep(kind, hi) is fine"""
    def bad(n):
        o = run_batch(binary, [(0, deep(kind, n))])[0]
        return o["outcome"] in ("panic", "abort", "timeout"), o
    b, o = bad(hi)
    if not b:
        return None, o
    while hi - lo >= resolution and lo < hi:
        mid = (lo + hi) // 2
        bm, om = bad(mid)
        if bm:
            hi, o = mid, om
        else:
            lo = mid + 1
    return hi, o


def gen_statements(ctx):
    rng = ctx.rng
    n_total = ctx.n(3000, 100000)
    stmts = []
    for s in DIRECTED:
        stmts.append(("directed", s))
    for kind in DEEP_KINDS:
        mx = DEEP_MAX[kind]
        for n in sorted({1, 10, 47, 48, 51, 200, mx // 2, mx}):
            if n <= mx:
                stmts.append((f"deep:{kind}:{n}", deep(kind, n)))
    n_gram = int((n_total - len(stmts)) * 0.55)
    valid = []
    for _ in range(n_gram):
        s = g_statement(rng)
        valid.append(s)
        stmts.append(("grammar", s))
    seeds = valid + DIRECTED
    while len(stmts) < n_total:
        s = rng.choice(seeds)
        m = mutate(rng, s)
        if rng.random() < 0.3:
            m = mutate(rng, m)
        stmts.append(("mutated", m))
    return stmts


def run(ctx):
    ok, log = vlib.build_harness("c29")
    if not ok:
        raise vlib.HarnessBuildError(log)
    binary = vlib.harness_bin("c29")
    stmts = gen_statements(ctx)
    ids = list(range(len(stmts)))
    results = {}
    t0 = time.time()
    from concurrent.futures import ThreadPoolExecutor
    deep_ids = [i for i in ids if stmts[i][0].startswith("deep:")]
    other = [i for i in ids if not stmts[i][0].startswith("deep:")]
    batches = [(False, [(i, stmts[i][1]) for i in other[k:k + BATCH]]) for k in range(0, len(other), BATCH)]
    for kind in DEEP_KINDS:          # one batch per shape, sizes increasing
        batches.append((True, [(i, stmts[i][1]) for i in deep_ids if stmts[i][0].split(":")[1] == kind]))
    batches.sort(key=lambda b: not b[0])
    with ThreadPoolExecutor(max_workers=6) as ex:
        for r in ex.map(lambda b: run_batch(binary, b[1], stop_after_timeout=b[0]), batches):
            results.update(r)
    classes = {"ok": 0, "err": 0, "panic": 0, "timeout": 0, "abort": 0, "skipped": 0}
    by_origin = {}
    bad = []
    slow = []
    for i in ids:
        o = results.get(i, {"outcome": "abort", "detail": "no result"})
        classes[o["outcome"]] = classes.get(o["outcome"], 0) + 1
        org = stmts[i][0].split(":")[0]
        by_origin.setdefault(org, {}).setdefault(o["outcome"], 0)
        by_origin[org][o["outcome"]] += 1
        if o["outcome"] in ("panic", "timeout", "abort"):
            bad.append((i, o))
        if (o.get("ms") or 0) > 2000:
            slow.append({"ms": o["ms"], "origin": stmts[i][0], "sql": stmts[i][1][:120]})
    # depth thresholds of the stack-overflow / deep-recursion findings, by bisection per shape
    thresholds = {}
    deep_bad_kinds = sorted({stmts[i][0].split(":")[1] for i, o in bad if stmts[i][0].startswith("deep:")})
    for kind in deep_bad_kinds:
        fails = sorted((int(stmts[i][0].split(":")[2]), o) for i, o in bad if stmts[i][0].startswith(f"deep:{kind}:"))
        n0, o0 = fails[0]
        if o0["outcome"] == "timeout" and ctx.quick:      # each failing probe costs the full limit: bisect in the thorough tier only
            passing = [int(stmts[i][0].split(":")[2]) for i in deep_ids if stmts[i][0].split(":")[1] == kind
                       and results[i]["outcome"] in ("ok", "err")]
            thresholds[kind] = {"smallest_failing_tested_n": n0, "largest_passing_tested_n": max([p for p in passing if p < n0], default=None),
                                "outcome": "timeout", "detail": ""}
            continue
        passing = [int(stmts[i][0].split(":")[2]) for i in deep_ids if stmts[i][0].split(":")[1] == kind
                   and results[i]["outcome"] in ("ok", "err") and int(stmts[i][0].split(":")[2]) < n0]
        res = 64 if (ctx.quick and n0 > 1000) else 1
        n, o = find_threshold(binary, kind, n0, lo=max(passing, default=0) + 1, resolution=res)
        thresholds[kind] = {"smallest_failing_n": n, "resolution": res, "outcome": o["outcome"], "detail": o["detail"][:160]}
    ctx.cov["evaluations"] = len(stmts)
    ctx.cov["distinct_nontrivial"] = len({s for _, s in stmts if len(s) > 10})
    ctx.cov["outcome_classes"] = classes
    ctx.cov["outcomes_by_origin"] = by_origin
    ctx.cov["deep_nesting_thresholds"] = thresholds
    ctx.cov["slow_statements_over_2s"] = slow[:10]
    ctx.cov["input_distribution"] = {"directed": len(DIRECTED), "deep_shapes": len(DEEP_KINDS), "per_statement_limit_ms": TIMEOUT_MS,
                                     "thread_stack": "8 MiB statement thread + default tokio workers", "build": "harness dev profile (overflow checks on)",
                                     "wall_engine_s": round(time.time() - t0, 1)}
    for i in ids[:3]:
        ctx.sample({"sql": stmts[i][1][:200], "outcome": results[i]["outcome"]})
    seen_cls = {}
    for i, o in bad:
        sql = stmts[i][1]
        cls = classify(sql)
        if cls and ctx.is_known(cls):
            ctx.known_finding(cls, ctx.known[cls])
            seen_cls[cls] = seen_cls.get(cls, 0) + 1
            continue
        if len(ctx.violations) < 6:
            ctx.violation({"kind": f"statement {o['outcome']}", "case": {"sql": sql}, "origin": stmts[i][0], "outcome": o, "class": cls,
                           "nesting_metric": nesting(sql)}, found_input=True)
    ctx.cov["known_class_hits"] = seen_cls
    ctx.cov["bad_statements"] = [{"outcome": o["outcome"], "origin": stmts[i][0], "class": classify(stmts[i][1]), "sql": stmts[i][1][:160],
                                  "detail": o["detail"][:120]} for i, o in bad[:80]]
    ctx.cov["traces_validated_against_impl"] = classes["ok"] + classes["err"]
    return ctx.finish(
        level="other",
        rule="directed boundary statements (i64/i32 overflow, /0, %0, LIMIT/OFFSET u64 max, huge literals, casts, string and date "
             "functions at extremes, unknown names, type mismatches, unsupported statements, odd Unicode incl. NUL) + 23 nesting/length "
             "shapes at sizes up to 2000 parentheses / 500 nested subqueries, CASE, NOT / 5000-term chains and IN lists + random "
             "grammar statements + character/token mutations of those; each through ExecutionContext::sql against 3 tables",
        extra={"explanation": "Validation by search, not proof: no executable model expresses that a 75k-line program never unwinds, "
                              "overflows its stack or hangs. Every statement runs in a subprocess on its own 8 MiB-stack thread under "
                              "catch_unwind with a 10 s wall-clock limit; outcome classes are recorded; panic / timeout / abort are "
                              "violations unless the statement's shape (nesting metric >= 100, or a call of abs) is a recorded class. "
                              "The logic-level parts of C29 (overflow-freedom of modelled arithmetic sites, termination measures of "
                              "modelled loops) are theorems of the properties that model those functions."},
        assumptions=["the harness is a dev-profile build (integer overflow checks on): arithmetic-overflow panics found here wrap silently in a release build",
                     "a hang shorter than 10 s per statement is not a finding"])


def replay(ctx, obj):
    ok, log = vlib.build_harness("c29")
    if not ok:
        raise vlib.HarnessBuildError(log)
    sql = (obj.get("case") or {}).get("sql", "")
    o = run_batch(vlib.harness_bin("c29"), [(0, sql)])[0]
    print("sql:", sql[:300]); print("outcome:", o)
    return 1 if o["outcome"] in ("panic", "timeout", "abort") else 0
