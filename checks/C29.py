"""C29 — no SQL input crashes or hangs the engine.  Two parts.

PROOF part (coq/theories/C29, pins in Props/C29.v): a theorem cannot carry "no panic anywhere in 100k lines", but the
logic cores in which the recorded C29 defects lived are modelled and proved for ALL inputs — the parser nesting guard
(paren_depth / check_nesting), the integer kernels (+ - * / % unary minus ABS on i32/i64, and the constant folder's own
implementation on literals), date32_to_naive with chrono's from_num_days_from_ce_opt transcribed and its consumers
EXTRACT / DATE_TRUNC / DATE_ADD, the join-reorder size score, and (re-exported from C03) the optimizer driver's
application bound.  Each model is tied to the real code by a correspondence run (harness c29k): generated inputs through
query_engine::parser::parse_sql / ExecutionContext::sql, outcome classes value / NULL / error / panic compared with the
model evaluated inside Coq (vlib.coq_eval_list).

SEARCH part (unchanged): grammar-generated and mutated SQL text through the real ExecutionContext::sql under
catch_unwind with a per-statement wall-clock limit, one subprocess per batch so that a hang or an abort (stack overflow)
is attributed to the statement that caused it.  Outcome classes Ok / Err / panic / timeout / abort; the last three are
violations unless the statement's SHAPE falls in a class recorded in known_findings.txt.  The regression corpus
(witnesses of every defect repaired for C29) runs first."""
import json, os, re, subprocess, time
import vlib

TIMEOUT_MS = 10_000
BATCH = 300

# ---------------------------------------------------------------- grammar
COLS = {"t1": ["a", "b", "c", "d", "e"], "t2": ["a", "x", "y"], "t3": ["k", "v"]}
INT_LITS = ["0", "1", "-1", "2", "7", "9223372036854775807", "-9223372036854775808", "9223372036854775808",
            "2147483647", "-2147483648", "4294967296", "18446744073709551615", "99999999999999999999999999999999999999999"]
NUM_LITS = INT_LITS + ["0.0", "1.5", "-0.0", "1e308", "1e309", "1e-400", "1e400", ".5", "5.", "0." + "0" * 60 + "1",
                       "123456789012345678901234567890.123456789", "1e+", "0x10", "1_000"]
STR_LITS = ["''", "'a'", "'%'", "'_'", "'a%b_'", "'\\'", "'é'", "'\u0000'", "'" + "x" * 300 + "'", "'1'", "'2020-01-01'",
            "'9999-99-99'", "'\U0001F600'", "'a''b'", "'NaN'", "'inf'"]
FUNCS = ["abs", "upper", "lower", "length", "coalesce", "nullif", "round", "floor", "ceil", "sqrt", "ln", "exp", "power",
         "substr", "substring", "trim", "concat", "replace", "extract", "date_trunc", "year", "cast", "sum", "count", "avg",
         "min", "max", "stddev", "row_number", "rank", "lag", "nosuchfn", "l2_distance", "cosine_distance", "greatest",
         "least", "mod", "sign", "left", "right", "strpos", "to_date", "now", "random"]
TYPES = ["INT", "BIGINT", "SMALLINT", "DOUBLE", "FLOAT", "VARCHAR", "TEXT", "DATE", "BOOLEAN", "TIMESTAMP", "DECIMAL(10,2)",
         "DECIMAL(38,37)", "DECIMAL(100,50)", "BLOB", "INTERVAL", "NOSUCHTYPE"]


def g_expr(rng, d, tabs):
    k = rng.random()
    if d <= 0 or k < 0.25:
        c = rng.random()
        if c < 0.45:
            t = rng.choice(tabs)
            col = rng.choice(COLS.get(t, ["a"]) + ["nope"])
            return col if rng.random() < 0.6 else f"{t}.{col}"
        if c < 0.7:
            return rng.choice(NUM_LITS)
        if c < 0.85:
            return rng.choice(STR_LITS)
        return rng.choice(["NULL", "TRUE", "FALSE", "DATE '2020-02-30'", "DATE '1970-01-01'", "INTERVAL '1' DAY", "*", "?", "$1",
                           "[1.0, 2.0]", "ARRAY[1, 'a']", "CURRENT_DATE"])
    e = lambda: g_expr(rng, d - 1, tabs)
    if k < 0.45:
        return f"({e()} {rng.choice(['+', '-', '*', '/', '%', '||', '=', '<>', '<', '<=', '>', '>=', 'AND', 'OR', '^', '&', '|', '<<'])} {e()})"
    if k < 0.5:
        return f"({rng.choice(['-', '+', 'NOT ', '~'])}{e()})"
    if k < 0.6:
        f = rng.choice(FUNCS)
        if f == "cast":
            return f"CAST({e()} AS {rng.choice(TYPES)})"
        if f == "extract":
            return f"EXTRACT({rng.choice(['YEAR', 'MONTH', 'DAY', 'EPOCH', 'NOPE'])} FROM {e()})"
        args = ", ".join(e() for _ in range(rng.choice([0, 1, 1, 2, 2, 3])))
        if f in ("row_number", "rank", "lag", "sum", "count") and rng.random() < 0.4:
            return (f"{f}({args}) OVER ({rng.choice(['', 'PARTITION BY ' + e(), 'ORDER BY ' + e(), 'ORDER BY ' + e() + ' ROWS BETWEEN 1 PRECEDING AND 18446744073709551615 FOLLOWING'])})")
        if f in ("count", "sum") and rng.random() < 0.2:
            return f"{f}(DISTINCT {args or '*'})"
        return f"{f}({args})"
    if k < 0.68:
        n = rng.randint(1, 3)
        return ("CASE " + (e() + " " if rng.random() < 0.3 else "") +
                " ".join(f"WHEN {e()} THEN {e()}" for _ in range(n)) + (f" ELSE {e()}" if rng.random() < 0.6 else "") + " END")
    if k < 0.76:
        return f"({e()} {rng.choice(['', 'NOT '])}IN ({', '.join(e() for _ in range(rng.randint(0, 4)))}))"
    if k < 0.82:
        return f"({e()} {rng.choice(['', 'NOT '])}BETWEEN {e()} AND {e()})"
    if k < 0.88:
        return f"({e()} {rng.choice(['LIKE', 'NOT LIKE', 'ILIKE', 'SIMILAR TO'])} {rng.choice(STR_LITS)}{rng.choice(['', '', ' ESCAPE ' + rng.choice(STR_LITS)])})"
    if k < 0.92:
        return f"({e()} IS {rng.choice(['', 'NOT '])}{rng.choice(['NULL', 'TRUE', 'FALSE', 'DISTINCT FROM ' + e()])})"
    sub = g_select(rng, d - 1)
    return rng.choice([f"({sub})", f"EXISTS ({sub})", f"({e()} IN ({sub}))", f"({e()} = ANY ({sub}))", f"({e()} > ALL ({sub}))"])


def g_from(rng, d):
    tabs = []

    def one():
        k = rng.random()
        if d > 0 and k < 0.15:
            a = f"s{rng.randint(0, 9)}"
            tabs.append(a)
            return f"({g_select(rng, d - 1)}) AS {a}"
        t = rng.choice(["t1", "t2", "t3", "t1", "t2", "nosuchtable", "T1"])
        if k < 0.5:
            a = f"q{rng.randint(0, 9)}"
            COLS.setdefault(a, COLS.get(t.lower(), ["a"]))
            tabs.append(a)
            return f"{t} AS {a}"
        tabs.append(t)
        return t
    s = one()
    for _ in range(rng.choice([0, 0, 0, 1, 1, 2])):
        jt = rng.choice(["JOIN", "LEFT JOIN", "RIGHT JOIN", "FULL OUTER JOIN", "CROSS JOIN", ",", "NATURAL JOIN", "LEFT SEMI JOIN",
                         "JOIN LATERAL"])
        r = one()
        if jt in ("CROSS JOIN", ",", "NATURAL JOIN"):
            s += f" {jt} {r}"
        else:
            cond = rng.choice([f"ON {g_expr(rng, 1, tabs)}", "USING (a)", "ON TRUE", "", "ON 1"])
            s += f" {jt} {r} {cond}"
    return s, tabs


def g_select(rng, d):
    frm, tabs = g_from(rng, d)
    if rng.random() < 0.1:
        frm, tabs = None, ["t1"]
    items = ", ".join(g_expr(rng, min(d, 2), tabs) + (f" AS c{i}" if rng.random() < 0.4 else "") for i in range(rng.randint(1, 3)))
    if rng.random() < 0.15:
        items = rng.choice(["*", "t1.*", "*, *", "DISTINCT *", "DISTINCT ON (a) a"])
    s = f"SELECT {rng.choice(['', '', '', 'DISTINCT ', 'ALL '])}{items}"
    if frm:
        s += f" FROM {frm}"
    if rng.random() < 0.5:
        s += f" WHERE {g_expr(rng, min(d, 2), tabs)}"
    if rng.random() < 0.3:
        s += " GROUP BY " + ", ".join(rng.choice([g_expr(rng, 1, tabs), "1", "99", "ROLLUP(a)", "GROUPING SETS ((a), ())", "ALL"])
                                      for _ in range(rng.randint(1, 2)))
        if rng.random() < 0.4:
            s += f" HAVING {g_expr(rng, 1, tabs)}"
    if rng.random() < 0.3:
        s += " ORDER BY " + ", ".join(rng.choice([g_expr(rng, 1, tabs), "1", "0", "99"]) + rng.choice(["", " ASC", " DESC", " NULLS FIRST", " DESC NULLS LAST"])
                                      for _ in range(rng.randint(1, 2)))
    if rng.random() < 0.3:
        s += f" LIMIT {rng.choice(['0', '1', '5', '18446744073709551615', '18446744073709551616', '-1', 'ALL', 'NULL', '1+1', 'a', '1.5'])}"
        if rng.random() < 0.5:
            s += f" OFFSET {rng.choice(['0', '1', '18446744073709551615', '9223372036854775808', '-1'])}"
    return s


def g_statement(rng):
    k = rng.random()
    d = rng.choice([0, 1, 1, 2, 2, 3])
    if k < 0.7:
        return g_select(rng, d)
    if k < 0.8:
        op = rng.choice(["UNION", "UNION ALL", "INTERSECT", "EXCEPT", "INTERSECT ALL", "EXCEPT ALL", "MINUS"])
        return f"{g_select(rng, d)} {op} {g_select(rng, d)}" + (" ORDER BY 1 LIMIT 3" if rng.random() < 0.3 else "")
    if k < 0.88:
        return (f"WITH {rng.choice(['', 'RECURSIVE '])}w AS ({g_select(rng, d)}){rng.choice(['', ', w2 AS (SELECT * FROM w)'])} "
                f"SELECT * FROM {rng.choice(['w', 'w2', 'w JOIN w AS ww ON TRUE', 'w, t1'])}")
    if k < 0.93:
        return "VALUES " + ", ".join("(" + ", ".join(rng.choice(NUM_LITS + STR_LITS + ["NULL"]) for _ in range(rng.randint(1, 3))) + ")"
                                     for _ in range(rng.randint(1, 3)))
    return rng.choice([
        "INSERT INTO t1 VALUES (1, 'a', 1.0, DATE '2020-01-01', TRUE)", "UPDATE t1 SET a = 1", "DELETE FROM t1", "DROP TABLE t1",
        "CREATE TABLE z (a INT)", "CREATE VIEW vv AS SELECT 1", "EXPLAIN SELECT * FROM t1", "EXPLAIN ANALYZE SELECT a FROM t1",
        "MERGE INTO t1 USING t2 ON t1.a = t2.a WHEN MATCHED THEN DELETE", "SELECT * FROM t1 PIVOT (SUM(a) FOR b IN ('a'))",
        "SELECT * FROM t1 TABLESAMPLE (10 PERCENT)", "SHOW TABLES", "DESCRIBE t1", "SET x = 1", "BEGIN", "COMMIT", "CALL f()",
        "SELECT 1; SELECT 2", ";", "", " ", "SELECT", "SELECT FROM", "SELECT * FROM", "SELECT 1 FROM t1 WHERE", "COPY t1 TO 'x'",
        "SELECT * FROM t1 FOR UPDATE", "SELECT * FROM t1 AS OF 1", "TABLE t1", "SELECT a FROM t1 WINDOW w AS (ORDER BY a)",
        "SELECT * FROM t1 MATCH_RECOGNIZE (PATTERN (A))", "SELECT TOP 3 a FROM t1", "SELECT a FROM t1 FETCH FIRST 2 ROWS ONLY",
        "SELECT a FROM t1 QUALIFY row_number() OVER (ORDER BY a) = 1", "SELECT * FROM read_parquet('/nonexistent')",
        "SELECT * FROM 't1'", "SELECT * FROM \"t1\"", "SELECT \"a\" FROM t1", "SELECT `a` FROM t1", "SELECT [a] FROM t1"])


# ---------------------------------------------------------------- stress shapes (nesting metric = n)
def deep(kind, n):
    if kind == "paren":
        return "SELECT " + "(" * n + "1" + ")" * n
    if kind == "paren_where":
        return "SELECT a FROM t1 WHERE " + "(" * n + "a = 1" + ")" * n
    if kind == "subquery":
        return "SELECT * FROM " + "(SELECT * FROM " * n + "t1" + ") AS s" * n
    if kind == "scalar_subquery":
        return "SELECT " + "(SELECT " * n + "1" + ")" * n
    if kind == "case":
        return "SELECT " + "CASE WHEN a = 1 THEN " * n + "1" + " ELSE 0 END" * n + " FROM t1"
    if kind == "not":
        return "SELECT a FROM t1 WHERE " + "NOT " * n + "e"
    if kind == "neg":
        return "SELECT " + "- " * n + "a FROM t1"
    if kind == "plus_chain":
        return "SELECT 1" + " + 1" * n
    if kind == "and_chain":
        return "SELECT a FROM t1 WHERE a = 0" + " AND a = 0" * n
    if kind == "or_chain":
        return "SELECT a FROM t1 WHERE a = 0" + " OR a = 1" * n
    if kind == "concat_chain":
        return "SELECT b" + " || b" * n + " FROM t1"
    if kind == "in_list":
        return "SELECT a FROM t1 WHERE a IN (" + ", ".join(str(i) for i in range(n)) + ")"
    if kind == "union_chain":
        return "SELECT 1" + " UNION ALL SELECT 1" * n
    if kind == "join_chain":
        return "SELECT count(*) FROM t3 AS j0" + "".join(f" JOIN t3 AS j{i} ON j{i}.k = j{i - 1}.k" for i in range(1, n + 1))
    if kind == "cte_chain":
        return "WITH w0 AS (SELECT 1 AS a)" + "".join(f", w{i} AS (SELECT a FROM w{i - 1})" for i in range(1, n + 1)) + f" SELECT * FROM w{n}"
    if kind == "func":
        return "SELECT " + "abs(" * n + "1" + ")" * n
    if kind == "cast":
        return "SELECT " + "CAST(" * n + "1" + " AS BIGINT)" * n
    if kind == "select_items":
        return "SELECT " + ", ".join("a" for _ in range(n)) + " FROM t1"
    if kind == "between":
        return "SELECT a FROM t1 WHERE a " + "BETWEEN 0 AND 1 AND a " * n + "= 1"
    if kind == "values_rows":
        return "VALUES " + ", ".join("(1)" for _ in range(n))
    if kind == "order_keys":
        return "SELECT a FROM t1 ORDER BY " + ", ".join("a" for _ in range(n))
    if kind == "long_ident":
        return "SELECT " + "a" * n + " FROM t1"
    if kind == "long_string":
        return "SELECT '" + "x" * n + "' LIKE '" + "%x" * min(n, 2000) + "'"
    raise ValueError(kind)


DEEP_KINDS = ["paren", "paren_where", "subquery", "scalar_subquery", "case", "not", "neg", "plus_chain", "and_chain", "or_chain",
              "concat_chain", "in_list", "union_chain", "join_chain", "cte_chain", "func", "cast", "select_items", "between",
              "values_rows", "order_keys", "long_ident", "long_string"]
DEEP_MAX = {"paren": 2000, "paren_where": 2000, "subquery": 500, "scalar_subquery": 500, "case": 500, "not": 500, "neg": 500,
            "plus_chain": 5000, "and_chain": 5000, "or_chain": 5000, "concat_chain": 2000, "in_list": 5000, "union_chain": 1000,
            "join_chain": 60, "cte_chain": 200, "func": 500, "cast": 500, "select_items": 5000, "between": 500,
            "values_rows": 5000, "order_keys": 2000, "long_ident": 100000, "long_string": 100000}

# witnesses of the defects repaired for C29 (fix: commits in /repo); they run first on every run
REGRESSION = [
    # a61f7e5 parser nesting guard: depth >= 48 never returned
    ("a61f7e5", "SELECT " + "CAST(" * 48 + "1" + " AS BIGINT)" * 48),
    ("a61f7e5", "SELECT " + "(" * 48 + "1" + ")" * 48),
    ("a61f7e5", "SELECT " + "CAST(" * 47 + "1" + " AS BIGINT)" * 47),
    # 993b9a5 join score of an empty table with statistics, >= 12 relations
    ("993b9a5", "SELECT count(*) FROM t3 AS j0" + "".join(f" JOIN t3 AS j{i} ON j{i}.k = j{i - 1}.k" for i in range(1, 14))),
    # 4e93f42 ABS(MIN)
    ("4e93f42", "SELECT abs(-9223372036854775807 - 1)"), ("4e93f42", "SELECT abs(a) FROM t1"), ("4e93f42", "SELECT abs(x) FROM t2"),
    # e607feb days + 719163 on Date32 near i32::MAX
    ("e607feb", "SELECT EXTRACT(YEAR FROM d) FROM t1"), ("e607feb", "SELECT date_trunc('month', d) FROM t1"),
    ("e607feb", "SELECT date_add('day', 1, d) FROM t1"), ("e607feb", "SELECT date_diff('day', d, d) FROM t1"),
    # c308f13 constant folder: MIN / -1 and MIN % -1 on literals
    ("c308f13", "SELECT (0 - 9223372036854775807 - 1) / (0 - 1)"), ("c308f13", "SELECT (0 - 9223372036854775807 - 1) % (0 - 1)"),
    ("c308f13", "SELECT a FROM t1 WHERE (0 - 9223372036854775807 - 1) % (0 - 1) = 0"),
    # 54868b4 DATE_ADD with a count chrono cannot represent
    ("54868b4", "SELECT date_add('day', 9223372036854775807, DATE '2020-01-01')"), ("54868b4", "SELECT date_add('week', 9223372036854775807, DATE '2020-01-01')"),
    ("54868b4", "SELECT date_add('year', 9223372036854775807, DATE '2020-01-01')"), ("54868b4", "SELECT date_add('month', 4294967297, DATE '2020-01-01')"),
    ("54868b4", "SELECT date_add('second', 9223372036854775807, CAST(DATE '2020-01-01' AS TIMESTAMP))"),
    ("54868b4", "SELECT date_add('hour', 9223372036854775807, CAST(DATE '2020-01-01' AS TIMESTAMP))"),
    # a29b909 DATE_TRUNC('week') on the first days of chrono's range
    ("a29b909", "SELECT date_trunc('week', CAST(-96465292 AS DATE))"), ("a29b909", "SELECT date_trunc('week', CAST(-96465289 AS DATE))"),
    ("a29b909", "SELECT date_trunc('week', CAST(CAST(-96465292 AS DATE) AS TIMESTAMP))"),
]

DIRECTED = [
    "SELECT 9223372036854775807 + 1", "SELECT -9223372036854775808 - 1", "SELECT 9223372036854775807 * 2",
    "SELECT (-9223372036854775807 - 1) / -1", "SELECT (-9223372036854775807 - 1) % -1", "SELECT -(-9223372036854775807 - 1)",
    "SELECT a + 1 FROM t1", "SELECT a - 1 FROM t1", "SELECT a * a FROM t1", "SELECT a / -1 FROM t1", "SELECT a % -1 FROM t1", "SELECT -a FROM t1",
    "SELECT a / 0 FROM t1", "SELECT a % 0 FROM t1", "SELECT c / 0 FROM t1", "SELECT c % 0 FROM t1", "SELECT 1 / 0", "SELECT 1 % 0", "SELECT 1.0 / 0",
    "SELECT x + x FROM t2", "SELECT x * x FROM t2", "SELECT -x FROM t2", "SELECT x / -1 FROM t2",
    "SELECT SUM(a) FROM t1", "SELECT AVG(a) FROM t1", "SELECT SUM(a * a) FROM t1", "SELECT SUM(x) FROM t2", "SELECT a, SUM(a) FROM t1 GROUP BY a",
    "SELECT MIN(a), MAX(a), COUNT(DISTINCT a) FROM t1", "SELECT SUM(c), AVG(c), MIN(c), MAX(c) FROM t1",
    "SELECT * FROM t1 LIMIT 18446744073709551615 OFFSET 18446744073709551615", "SELECT * FROM t1 LIMIT 18446744073709551615 OFFSET 1",
    "SELECT * FROM t1 ORDER BY a LIMIT 18446744073709551615 OFFSET 18446744073709551615", "SELECT * FROM t1 ORDER BY a LIMIT 9223372036854775807 OFFSET 9223372036854775807",
    "SELECT * FROM t1 LIMIT 18446744073709551616", "SELECT * FROM t1 LIMIT 1 OFFSET 18446744073709551616", "SELECT * FROM t1 LIMIT -1",
    "SELECT a FROM t1 ORDER BY a LIMIT 18446744073709551615", "SELECT DISTINCT a FROM t1 LIMIT 18446744073709551615 OFFSET 3",
    "SELECT abs(a) FROM t1", "SELECT abs(x) FROM t2", "SELECT abs(-9223372036854775807 - 1)", "SELECT round(c, 400) FROM t1", "SELECT round(c, -400) FROM t1",
    "SELECT round(c, 9223372036854775807) FROM t1", "SELECT power(a, a) FROM t1", "SELECT power(2, 4000)", "SELECT exp(c), ln(c), sqrt(c) FROM t1",
    "SELECT substr(b, 9223372036854775807) FROM t1", "SELECT substr(b, -9223372036854775808, 9223372036854775807) FROM t1", "SELECT substr(b, 0, -1) FROM t1",
    "SELECT substring(b FROM 2 FOR 18446744073709551615) FROM t1", "SELECT left(b, -9223372036854775808) FROM t1", "SELECT right(b, 9223372036854775807) FROM t1",
    "SELECT repeat(b, 1000000) FROM t1", "SELECT lpad(b, 2000000, 'x') FROM t1", "SELECT rpad(b, -1, '') FROM t1",
    "SELECT d + 2147483647 FROM t1", "SELECT d - 2147483647 FROM t1", "SELECT d + a FROM t1", "SELECT d - d FROM t1", "SELECT d + INTERVAL '1000000000' YEAR FROM t1",
    "SELECT EXTRACT(YEAR FROM d) FROM t1", "SELECT date_trunc('month', d) FROM t1", "SELECT CAST(d AS VARCHAR) FROM t1", "SELECT CAST(d AS TIMESTAMP) FROM t1", "SELECT CAST(b AS DATE) FROM t1",
    "SELECT CAST(a AS INT) FROM t1", "SELECT CAST(a AS SMALLINT) FROM t1", "SELECT CAST(c AS BIGINT) FROM t1", "SELECT CAST(c AS INT) FROM t1", "SELECT CAST(b AS BIGINT) FROM t1",
    "SELECT CAST(a AS DECIMAL(38,37)) FROM t1", "SELECT CAST(c AS DECIMAL(10,2)) FROM t1", "SELECT CAST(a AS DATE) FROM t1", "SELECT CAST(e AS INT) FROM t1",
    "SELECT CAST('' AS INT)", "SELECT CAST('9223372036854775808' AS BIGINT)", "SELECT CAST(1e400 AS DOUBLE)", "SELECT CAST(1e19 AS BIGINT)",
    "SELECT 1e400", "SELECT 99999999999999999999999999999999999999999999 + 1", "SELECT 0." + "0" * 400 + "1", "SELECT 1" + "0" * 400, "SELECT 1." + "1" * 400,
    "SELECT b LIKE b FROM t1", "SELECT b LIKE '%' || b || '%' FROM t1", "SELECT b LIKE '\\' FROM t1", "SELECT b LIKE 'a' ESCAPE '' FROM t1", "SELECT b LIKE '%%%%%%%%%%%%%%%%%%%%%%%%%%%%%%%%%%%%%%%%a' FROM t1",
    "SELECT 'a' + 1", "SELECT 'a' * 'b'", "SELECT d + e FROM t1", "SELECT e + 1 FROM t1", "SELECT b > 1 FROM t1", "SELECT a = 'x' FROM t1", "SELECT d = 1 FROM t1", "SELECT NOT a FROM t1",
    "SELECT SUM(b) FROM t1", "SELECT AVG(d) FROM t1", "SELECT MAX(e) FROM t1", "SELECT SUM(e) FROM t1", "SELECT COUNT(*) FROM t1 GROUP BY c", "SELECT c, COUNT(*) FROM t1 GROUP BY c ORDER BY c",
    "SELECT * FROM t1 ORDER BY c", "SELECT * FROM t1 ORDER BY b DESC NULLS FIRST, c", "SELECT DISTINCT c FROM t1", "SELECT c FROM t1 UNION SELECT c FROM t1",
    "SELECT * FROM t1 JOIN t2 ON t1.c = t2.x", "SELECT * FROM t1 JOIN t2 ON t1.b = t2.a", "SELECT * FROM t1 JOIN t2 ON t1.a = t2.x", "SELECT * FROM t1 NATURAL JOIN t2",
    "SELECT * FROM t1, t2, t3", "SELECT * FROM t1 JOIN t2 USING (a) JOIN t3 ON t3.k = t2.y", "SELECT * FROM t1 WHERE a IN (SELECT a FROM t2 WHERE t2.a = t1.a)",
    "SELECT (SELECT a FROM t2) FROM t1", "SELECT (SELECT a, x FROM t2 LIMIT 1) FROM t1", "SELECT * FROM t1 WHERE EXISTS (SELECT 1 FROM t2 WHERE t2.a > t1.a AND EXISTS (SELECT 1 FROM t3 WHERE t3.v = t1.c))",
    "SELECT a, (SELECT MAX(x) FROM t2 WHERE t2.a = t1.a) FROM t1 GROUP BY a", "SELECT a FROM t1 GROUP BY a HAVING (SELECT COUNT(*) FROM t2) > a",
    "SELECT row_number() OVER () FROM t1", "SELECT SUM(a) OVER (ORDER BY a ROWS BETWEEN 9223372036854775807 PRECEDING AND CURRENT ROW) FROM t1",
    "SELECT lag(a, 9223372036854775807) OVER (ORDER BY a) FROM t1", "SELECT lag(a, -1) OVER (ORDER BY a) FROM t1", "SELECT ntile(0) OVER (ORDER BY a) FROM t1", "SELECT nth_value(a, 0) OVER (ORDER BY a) FROM t1",
    "SELECT l2_distance([1.0], [1.0, 2.0])", "SELECT cosine_distance([], [])", "SELECT l2_distance(b, [1.0]) FROM t1", "SELECT l2_distance([1e38, 1e38], [-1e38, -1e38])",
    "SELECT * FROM t3", "SELECT MAX(v), MIN(k), SUM(v), AVG(v), COUNT(*) FROM t3", "SELECT * FROM t3 ORDER BY v LIMIT 1", "SELECT k, SUM(v) FROM t3 GROUP BY k", "SELECT * FROM t1 LEFT JOIN t3 ON t1.b = t3.k",
    "SELECT a AS a, a AS a FROM t1", "SELECT a AS b, b AS a FROM t1 ORDER BY a", "SELECT t1.a, t2.a FROM t1, t2 ORDER BY a", "SELECT a FROM t1, t2", "SELECT * FROM t1 AS t2, t2 AS t1",
    "SELECT a FROM t1 GROUP BY 1, 1, 1", "SELECT a FROM t1 ORDER BY 1, 1, 1", "SELECT 1 FROM t1 GROUP BY a ORDER BY b", "SELECT COUNT(*) FROM t1 WHERE COUNT(*) > 1", "SELECT SUM(SUM(a)) FROM t1",
    "SELECT * FROM t1 WHERE a = ANY (SELECT a FROM t2) OR a > ALL (SELECT x FROM t2)", "SELECT CASE WHEN 1 THEN 1 END", "SELECT CASE a WHEN 'x' THEN 1 ELSE 'y' END FROM t1", "SELECT COALESCE()", "SELECT NULLIF(1)", "SELECT COALESCE(a, b, c, d, e) FROM t1",
    "\u0000", "﻿SELECT 1", "SELECT 1", "SELECT 1 -- ‮", "SELECT '퟿\U0010ffff'", "SELECT \"\U0001F600\" FROM t1", "/* unterminated", "SELECT 'unterminated", "SELECT \"unterminated", "SELECT $$x$$", "SELECT 1 /* nested /* c */ */",
]


# ---------------------------------------------------------------- mutation
ALPHABET = list(" \t\n\r()[]{},.;:'\"`\\/*-+=<>!%&|^~?@#$_0123456789abcxyzSELCTFROMWHN") + ["\u0000", "é", "‮", "﻿",
            "\U0001F600", "́", "￿", " ", "\x7f", "\x1b"]
TOKEN_RE = re.compile(r"\s+|\w+|'[^']*'|.", re.S)


def mutate(rng, s):
    k = rng.random()
    cs = list(s)
    if not cs:
        return rng.choice(ALPHABET)
    if k < 0.3:            # character flips
        for _ in range(rng.randint(1, 4)):
            cs[rng.randrange(len(cs))] = rng.choice(ALPHABET)
        return "".join(cs)
    if k < 0.45:           # truncation
        return s[:rng.randrange(len(cs))]
    if k < 0.6:            # deletion of a span
        i = rng.randrange(len(cs)); j = min(len(cs), i + rng.randint(1, 8))
        return "".join(cs[:i] + cs[j:])
    if k < 0.7:            # insertion
        i = rng.randrange(len(cs) + 1)
        return "".join(cs[:i] + [rng.choice(ALPHABET) for _ in range(rng.randint(1, 5))] + cs[i:])
    toks = TOKEN_RE.findall(s)
    if k < 0.8 and len(toks) > 2:     # token swap
        i, j = rng.randrange(len(toks)), rng.randrange(len(toks))
        toks[i], toks[j] = toks[j], toks[i]
        return "".join(toks)
    if k < 0.9 and toks:              # token duplication / repetition
        i = rng.randrange(len(toks))
        return "".join(toks[:i] + [toks[i]] * rng.choice([2, 3, 50]) + toks[i + 1:])
    i = rng.randrange(len(toks))      # token replaced by a keyword / literal
    toks[i] = rng.choice(["SELECT", "FROM", "WHERE", "(", ")", "NULL", ",", "*", "AS", "JOIN", "ON", "BY", "'", "--", "/*", "1e999", "9223372036854775808"])
    return "".join(toks)


# ---------------------------------------------------------------- shape metric and classes
def paren_depth(sql):
    depth = best = 0
    for ch in sql:
        if ch == "(":
            depth += 1; best = max(best, depth)
        elif ch == ")":
            depth = max(0, depth - 1)
    return best


def chain_length(sql):
    """length of the longest run of one repeated operator / keyword token (AND, OR, +, ||, NOT, unary minus ...)"""
    counts = {}
    for m in re.finditer(r"\b(AND|OR|NOT|CASE|UNION|BETWEEN)\b|\|\||[-+*/%]", sql, re.I):
        tok = m.group(0).upper()
        counts[tok] = counts.get(tok, 0) + 1
    return max(list(counts.values()) + [0])


def nesting(sql):
    return max(paren_depth(sql), chain_length(sql))


PAREN_CLASS_DEPTH = 48      # sqlparser's recursion limit (50) is reached here: see class deep-nesting
CHAIN_CLASS_LENGTH = 900    # stack overflow found by bisection at ~3840 terms on an 8 MiB stack (~960 on a 2 MiB worker)
JOIN_CLASS_COUNT = 12


def classify(sql):
    """recorded classes, decided by the statement's shape alone (table contents are fixed: t1.a holds i64::MIN/MAX,
    t1.d holds the extreme Date32 values)"""
    if paren_depth(sql) >= PAREN_CLASS_DEPTH:
        return "deep-nesting"
    if chain_length(sql) >= CHAIN_CLASS_LENGTH:
        return "long-chain"
    if len(re.findall(r"\bJOIN\b", sql, re.I)) >= JOIN_CLASS_COUNT:
        return "join-cost-overflow"
    if re.search(r"\babs\s*\(", sql, re.I):
        return "abs-int-min"
    if re.search(r"\bas\s+timestamp\b", sql, re.I) and re.search(r"\bd\b", sql):
        return "date-extreme"    # only the arrow-cast Date32 -> Timestamp overflow is left (e607feb repaired the engine's own sites)
    return None


# ---------------------------------------------------------------- driver
def _limits():
    # guard for the shared machine only: a statement that needs more than 16 GiB of address space dies as `abort`
    import resource
    resource.setrlimit(resource.RLIMIT_AS, (16 << 30, 16 << 30))
    resource.setrlimit(resource.RLIMIT_CORE, (0, 0))


def run_batch(binary, stmts, stack_kib=None, stop_after_timeout=False):
    """stmts: list of (id, sql). Returns {id: outcome dict}. Restarts the process after a timeout or an abort.
    stop_after_timeout: the statements are one shape in increasing size; after the first timeout the larger ones are
    not run (outcome "skipped"): each would cost the full limit again."""
    out = {}
    todo = list(stmts)
    while todo:
        cfg = {"timeout_ms": TIMEOUT_MS}
        if stack_kib:
            cfg["stack_kib"] = stack_kib
        inp = json.dumps({"config": cfg}) + "\n" + "".join(json.dumps({"id": i, "sql": s}) + "\n" for i, s in todo)
        try:
            p = subprocess.run([binary], input=inp, capture_output=True, text=True, errors="replace",
                               timeout=TIMEOUT_MS / 1000 * 3 + len(todo) * 2 + 60, preexec_fn=_limits)
            rc, so, se = p.returncode, p.stdout, p.stderr
        except subprocess.TimeoutExpired as e:
            rc, so, se = -999, (e.stdout or b"").decode("utf-8", "replace") if isinstance(e.stdout, bytes) else (e.stdout or ""), "driver timeout"
        started = None
        for line in so.split("\n"):
            if not line.strip():
                continue
            try:
                o = json.loads(line)
            except Exception:
                continue
            if o.get("start"):
                started = o["id"]
            elif "outcome" in o:
                out[o["id"]] = o
                if started == o["id"]:
                    started = None
        if started is not None and started not in out:
            sig = -rc if rc < 0 else rc
            out[started] = {"id": started, "outcome": "abort", "ms": None,
                            "detail": f"process died (exit/signal {sig}): {se[-200:].strip()}"}
        done = set(out)
        rest = [(i, s) for i, s in todo if i not in done]
        if len(rest) == len(todo):        # no progress: the process cannot even start
            for i, s in rest:
                out[i] = {"id": i, "outcome": "abort", "ms": None, "detail": f"harness made no progress: {se[-200:]}"}
            break
        if stop_after_timeout and any(o["outcome"] == "timeout" for o in out.values()):
            for i, s in rest:
                out[i] = {"id": i, "outcome": "skipped", "ms": None, "detail": "a smaller instance of this shape already timed out"}
            break
        todo = rest
    return out


def find_threshold(binary, kind, hi, lo=1, resolution=1):
    """smallest n in lo..hi (by bisection, assuming monotonicity; up to `resolution`) at which deep(kind, n) panics / aborts /
    times out; None if deep(kind, hi) is fine"""
    def bad(n):
        o = run_batch(binary, [(0, deep(kind, n))])[0]
        return o["outcome"] in ("panic", "abort", "timeout"), o
    b, o = bad(hi)
    if not b:
        return None, o
    while hi - lo >= resolution and lo < hi:
        mid = (lo + hi) // 2
        bm, om = bad(mid)
        if bm:
            hi, o = mid, om
        else:
            lo = mid + 1
    return hi, o


def gen_statements(ctx):
    rng = ctx.rng
    n_total = ctx.n(3000, 100000)
    stmts = []
    for commit, s in REGRESSION:
        stmts.append((f"regression:{commit}", s))
    for s in DIRECTED:
        stmts.append(("directed", s))
    for kind in DEEP_KINDS:
        mx = DEEP_MAX[kind]
        for n in sorted({1, 10, 47, 48, 51, 200, mx // 2, mx}):
            if n <= mx:
                stmts.append((f"deep:{kind}:{n}", deep(kind, n)))
    n_gram = int((n_total - len(stmts)) * 0.55)
    valid = []
    for _ in range(n_gram):
        s = g_statement(rng)
        valid.append(s)
        stmts.append(("grammar", s))
    seeds = valid + DIRECTED
    while len(stmts) < n_total:
        s = rng.choice(seeds)
        m = mutate(rng, s)
        if rng.random() < 0.3:
            m = mutate(rng, m)
        stmts.append(("mutated", m))
    return stmts


def search(ctx):
    """the SEARCH part: fills ctx.cov["search"], records violations; returns the number of statements and of ok/err outcomes"""
    ok, log = vlib.build_harness("c29")
    if not ok:
        raise vlib.HarnessBuildError(log)
    binary = vlib.harness_bin("c29")
    stmts = gen_statements(ctx)
    ids = list(range(len(stmts)))
    results = {}
    t0 = time.time()
    from concurrent.futures import ThreadPoolExecutor
    reg_ids = [i for i in ids if stmts[i][0].startswith("regression:")]
    results.update(run_batch(binary, [(i, stmts[i][1]) for i in reg_ids]))       # the regression corpus runs first
    deep_ids = [i for i in ids if stmts[i][0].startswith("deep:")]
    other = [i for i in ids if not stmts[i][0].startswith("deep:") and not stmts[i][0].startswith("regression:")]
    batches = [(False, [(i, stmts[i][1]) for i in other[k:k + BATCH]]) for k in range(0, len(other), BATCH)]
    for kind in DEEP_KINDS:          # one batch per shape, sizes increasing
        batches.append((True, [(i, stmts[i][1]) for i in deep_ids if stmts[i][0].split(":")[1] == kind]))
    batches.sort(key=lambda b: not b[0])
    with ThreadPoolExecutor(max_workers=6) as ex:
        for r in ex.map(lambda b: run_batch(binary, b[1], stop_after_timeout=b[0]), batches):
            results.update(r)
    classes = {"ok": 0, "err": 0, "panic": 0, "timeout": 0, "abort": 0, "skipped": 0}
    by_origin = {}
    bad = []
    slow = []
    for i in ids:
        o = results.get(i, {"outcome": "abort", "detail": "no result"})
        classes[o["outcome"]] = classes.get(o["outcome"], 0) + 1
        org = stmts[i][0].split(":")[0]
        by_origin.setdefault(org, {}).setdefault(o["outcome"], 0)
        by_origin[org][o["outcome"]] += 1
        if o["outcome"] in ("panic", "timeout", "abort"):
            bad.append((i, o))
        if (o.get("ms") or 0) > 2000:
            slow.append({"ms": o["ms"], "origin": stmts[i][0], "sql": stmts[i][1][:120]})
    # depth thresholds of the stack-overflow / deep-recursion findings, by bisection per shape
    thresholds = {}
    deep_bad_kinds = sorted({stmts[i][0].split(":")[1] for i, o in bad if stmts[i][0].startswith("deep:")})
    for kind in deep_bad_kinds:
        fails = sorted((int(stmts[i][0].split(":")[2]), o) for i, o in bad if stmts[i][0].startswith(f"deep:{kind}:"))
        n0, o0 = fails[0]
        if o0["outcome"] == "timeout" and ctx.quick:      # each failing probe costs the full limit: bisect in the thorough tier only
            passing = [int(stmts[i][0].split(":")[2]) for i in deep_ids if stmts[i][0].split(":")[1] == kind
                       and results[i]["outcome"] in ("ok", "err")]
            thresholds[kind] = {"smallest_failing_tested_n": n0, "largest_passing_tested_n": max([p for p in passing if p < n0], default=None),
                                "outcome": "timeout", "detail": ""}
            continue
        passing = [int(stmts[i][0].split(":")[2]) for i in deep_ids if stmts[i][0].split(":")[1] == kind
                   and results[i]["outcome"] in ("ok", "err") and int(stmts[i][0].split(":")[2]) < n0]
        res = 64 if (ctx.quick and n0 > 1000) else 1
        n, o = find_threshold(binary, kind, n0, lo=max(passing, default=0) + 1, resolution=res)
        thresholds[kind] = {"smallest_failing_n": n, "resolution": res, "outcome": o["outcome"], "detail": o["detail"][:160]}
    sc = ctx.cov.setdefault("search", {})
    sc["evaluations"] = len(stmts)
    sc["distinct_nontrivial"] = len({s for _, s in stmts if len(s) > 10})
    sc["outcome_classes"] = classes
    sc["outcomes_by_origin"] = by_origin
    sc["deep_nesting_thresholds"] = thresholds
    sc["slow_statements_over_2s"] = slow[:10]
    sc["input_distribution"] = {"regression": len(REGRESSION), "directed": len(DIRECTED), "deep_shapes": len(DEEP_KINDS), "per_statement_limit_ms": TIMEOUT_MS,
                                     "thread_stack": "8 MiB statement thread + default tokio workers", "build": "harness dev profile (overflow checks on)",
                                     "wall_engine_s": round(time.time() - t0, 1)}
    for i in ids[:3]:
        ctx.sample({"sql": stmts[i][1][:200], "outcome": results[i]["outcome"]})
    seen_cls = {}
    for i, o in bad:
        sql = stmts[i][1]
        cls = classify(sql)
        if cls and ctx.is_known(cls):
            ctx.known_finding(cls, ctx.known[cls])
            seen_cls[cls] = seen_cls.get(cls, 0) + 1
            continue
        if len(ctx.violations) < 6:
            ctx.violation({"kind": f"statement {o['outcome']}", "case": {"sql": sql}, "origin": stmts[i][0], "outcome": o, "class": cls,
                           "nesting_metric": nesting(sql)}, found_input=True)
    sc["known_class_hits"] = seen_cls
    sc["bad_statements"] = [{"outcome": o["outcome"], "origin": stmts[i][0], "class": classify(stmts[i][1]), "sql": stmts[i][1][:160],
                                  "detail": o["detail"][:120]} for i, o in bad[:80]]
    sc["regression_corpus"] = [{"fix": stmts[i][0].split(":")[1], "sql": stmts[i][1][:100], "outcome": results[i]["outcome"]} for i in reg_ids]
    return len(stmts), classes["ok"] + classes["err"], sc["distinct_nontrivial"]


# ================================================================ PROOF part: correspondence of the modelled kernels
REQ = "From QV Require Import Base.Util C29.Model."
I64_MIN, I64_MAX = -2 ** 63, 2 ** 63 - 1
I32_MIN, I32_MAX = -2 ** 31, 2 ** 31 - 1
DMIN, DMAX = -96465292, 95026236            # chrono's NaiveDate::MIN / MAX as Date32 (theorem C29_date32_to_naive_some)
OPS = ["+", "-", "*", "/", "%"]             # operator codes 0..4; 5 unary minus; 6 abs (Model.v k_op)
TRUNC_UNITS = ["day", "week", "month", "quarter", "year", "fortnight"]      # codes 0..4, anything else
ADD_UNITS = {0: "day", 1: "week", 2: "month", 4: "year"}


def lit_fold(n):
    """an integer as an expression the constant folder folds to a literal (`0 - n`; unary minus is not folded)"""
    if n >= 0:
        return str(n)
    if n == I64_MIN:
        return "(0 - 9223372036854775807 - 1)"
    return f"(0 - {-n})"


def lit_neg(n):
    """the same value through the run-time unary-minus kernel"""
    if n >= 0:
        return str(n)
    if n == I64_MIN:
        return "(-9223372036854775807 - 1)"
    return f"(-{-n})"


def lit_i32(n):
    return f"CAST({n} AS INT)" if n >= 0 else f"CAST(-{-n} AS INT)"


def int_operands(rng, bits, n_random, full):
    mn, mx = -2 ** (bits - 1), 2 ** (bits - 1) - 1
    root = 3037000499 if bits == 64 else 46340            # floor(sqrt(MAX))
    edge = [mn, mn + 1, mx, mx - 1, -1, 0, 1, 2, -2, 7, -7, root, root + 1, -root - 1, 2 ** (bits // 2), -(2 ** (bits // 2 - 1))]
    if not full:                                          # quick tier: a 9 x 9 grid
        edge = [mn, mn + 1, mx, -1, 0, 1, -7, root + 1, 2 ** (bits // 2)]
    pairs = [(x, y) for x in edge for y in edge]
    for _ in range(n_random):
        k = rng.random()
        if k < 0.3:
            x, y = rng.randint(mn, mx), rng.randint(mn, mx)
        elif k < 0.5:
            x, y = rng.randint(mn, mx), rng.choice([-3, -2, -1, 1, 2, 3, 10, -10, 0])
        elif k < 0.75:                                     # products / sums next to the boundary
            x = rng.choice([1, -1]) * rng.randint(2, root * 4)
            y = (mx // x) + rng.choice([-1, 0, 1, 2])
        else:
            x = rng.randint(mn, mx)
            y = rng.choice([mx - x, mn - x, mx - x + 1, mn - x - 1, x, -x if x != mn else 1])
            y = max(mn, min(mx, y))
        pairs.append((x, y))
    return pairs


def int_unit(bits, x, y):
    """one harness call: a one-row table holding the operands, and every statement form of every operator.
    Returns (harness case, [(judged case, [query indices])...])"""
    cols = [["a", "i64"], ["b", "i64"]] if bits == 64 else [["a", "i32"], ["b", "i32"]]
    table = {"name": "t", "cols": cols, "rows": [[x, y]]}
    queries, judged = [], []

    def add(kind, op, sqls):
        idx = list(range(len(queries), len(queries) + len(sqls)))
        queries.extend(sqls)
        judged.append(({"kernel": "int", "kind": kind, "op": op, "bits": bits, "x": x, "y": y, "tables": [table], "sqls": sqls}, idx))
    for op, sym in enumerate(OPS):
        if bits == 64:
            add("runtime", op, [f"SELECT a {sym} b FROM t", f"SELECT {lit_neg(x)} {sym} {lit_neg(y)}", f"SELECT a {sym} {lit_neg(y)} FROM t"])
            add("fold", op, [f"SELECT {lit_fold(x)} {sym} {lit_fold(y)}", f"SELECT {lit_fold(x)} {sym} {lit_fold(y)} FROM t"])
        else:
            add("runtime", op, [f"SELECT a {sym} b FROM t", f"SELECT {lit_i32(x)} {sym} {lit_i32(y)}", f"SELECT a {sym} {lit_i32(y)} FROM t"])
            add("widened", op, [f"SELECT a {sym} {lit_neg(y)} FROM t"])       # INT column with a BIGINT literal: coerced to i64
    lit = lit_neg(x) if bits == 64 else lit_i32(x)
    add("runtime", 5, ["SELECT -a FROM t", f"SELECT -({lit})"])
    add("runtime", 6, ["SELECT abs(a) FROM t", f"SELECT abs({lit})"])
    return {"mode": "sql", "tables": [table], "queries": queries}, judged


def date_values(rng, n_random):
    edge = [I32_MIN, I32_MIN + 1, I32_MAX, I32_MAX - 1, I32_MAX - 719162, I32_MAX - 719163, I32_MAX - 719163 - 365, I32_MAX - 719163 - 364,
            DMIN - 2, DMIN - 1, DMIN, DMIN + 1, DMIN + 2, DMIN + 3, DMIN + 4, DMIN + 5, DMIN + 6, DMIN + 7, DMIN + 30, DMIN + 365,
            DMAX + 1, DMAX, DMAX - 1, DMAX - 30, DMAX - 31, DMAX - 364, DMAX - 365, DMAX - 366,
            -1, 0, 1, 58, 59, 60, 11016, 11017, 19782, 19783, -25509, -25508, -719162, -719163, -719528, -719529, -141427, 2932896, 2932897]
    out = list(edge)
    for _ in range(n_random):
        k = rng.random()
        if k < 0.4:
            out.append(rng.randint(-800000, 3000000))
        elif k < 0.8:
            out.append(rng.randint(DMIN, DMAX))
        else:
            out.append(rng.randint(I32_MIN, I32_MAX))
    return out


ADD_COUNTS = [0, 1, -1, 7, -7, 30, 31, 365, -366, 12, -12, 100000, -100000, I32_MAX, I32_MIN, I32_MAX + 1, I32_MIN - 1, 2 ** 32 - 1, 2 ** 32,
              2 ** 32 + 1, -(2 ** 32) - 1, 106751991167, 106751991168, -106751991167, -106751991168, 15250284452, 15250284453, -15250284453,
              768614336404564650, 768614336404564651, -768614336404564651, I64_MAX, I64_MIN, I64_MAX // 7, 306783378, 306783379, 178956970, 178956971]


def date_unit(rng, d):
    table = {"name": "t", "cols": [["d", "date"]], "rows": [[d]]}
    queries, judged = [], []

    def add(case, sql):
        judged.append((dict(case, kernel="date", d=d, tables=[table], sqls=[sql]), [len(queries)]))
        queries.append(sql)
    for f, name in enumerate(["YEAR", "MONTH", "DAY"]):
        add({"fn": "extract", "f": f}, f"SELECT EXTRACT({name} FROM d) FROM t")
    for u, name in enumerate(TRUNC_UNITS):
        add({"fn": "trunc", "u": u}, f"SELECT date_trunc('{name}', d) FROM t")
    for u, name in ADD_UNITS.items():
        vs = [rng.choice(ADD_COUNTS) for _ in range(2)] + [rng.choice([DMAX - d, DMAX - d + 1, DMIN - d, DMIN - d - 1, rng.randint(-3000, 3000)])]
        for v in vs:
            v = max(I64_MIN, min(I64_MAX, v))
            add({"fn": "add", "u": u, "v": v}, f"SELECT date_add('{name}', {lit_neg(v)}, d) FROM t")
    return {"mode": "sql", "tables": [table], "queries": queries}, judged


def guard_strings(rng, n):
    out = ["", "(", ")", ")(", "'('", "''", "'(''('", '"("(', "`(`(", "--(\n(", "-(", "- -(", "--", "-", "(--)", "(\n--)\n)", "'--'(", "--'\n(", "'\n'(",
           "SELECT " + "(" * 47 + "1" + ")" * 47, "SELECT " + "(" * 48 + "1" + ")" * 48, "SELECT " + "(" * 47 + "1" + ")" * 47 + "(",
           "SELECT " + "()" * 100, "SELECT " + "(" * 47 + ")" * 47 + "(" * 47 + ")" * 47, ")" * 60 + "(" * 47, ")" * 60 + "(" * 48,
           "SELECT '" + "(" * 60 + "'", "SELECT \"" + "(" * 60 + "\"", "SELECT 1 --" + "(" * 60, "SELECT 1 --" + "(" * 60 + "\n" + "(" * 48,
           "SELECT '" + "(" * 60 + "''" + "(" * 60 + "'" + "(" * 48, "SELECT 'a" + "(" * 48, "SELECT 1 -" + "(" * 48 + "1" + ")" * 48,
           "SELECT " + "CAST(" * 47 + "1" + " AS BIGINT)" * 47, "SELECT " + "CAST(" * 48 + "1" + " AS BIGINT)" * 48,
           "SELECT é" + "(" * 48, "SELECT '’" + "(" * 48 + "'", "(" * 47 + "\u0000" + "(", "\r--\r(" + "(" * 47,
           # a backslash is an ordinary character in this dialect: a literal ending in one is still closed by its quote
           # (added after seeded change seeded/C29)
           "SELECT '\\', " + "(" * 48 + "1" + ")" * 48, "SELECT '\\', " + "(" * 47 + "1" + ")" * 47, "SELECT 'a\\' || " + "CAST(" * 48 + "1" + " AS BIGINT)" * 48,
           "SELECT \"\\\", " + "(" * 48, "SELECT '\\''(' , " + "(" * 48, "SELECT '\\\\', " + "(" * 48]
    toks = ["(", "(", "(", ")", ")", "'", "''", '"', "`", "--", "-", "\n", " ", "a", "1", ",", "SELECT ", "é", "\\", "/*", "*/", "\r", "x'", "--\n"]
    while len(out) < n:
        k = rng.random()
        if k < 0.35:        # token soup
            s = "".join(rng.choice(toks) for _ in range(rng.randint(1, 80)))
        elif k < 0.8:       # a deep run around the limit with lexical noise inside and around it
            d = rng.choice([45, 46, 47, 47, 48, 48, 49, 60])
            body, opened = [], 0
            while opened < d:
                r = rng.random()
                if r < 0.75:
                    body.append("("); opened += 1
                elif r < 0.8:
                    body.append(")"); opened = max(0, opened - 1)
                elif r < 0.86:
                    q = rng.choice(["'", '"', "`"])
                    body.append(q + "".join(rng.choice(["(", ")", "-", "a", q + q, "\n", "\\"]) for _ in range(rng.randint(0, 5))) + q)
                elif r < 0.92:
                    body.append("--" + "".join(rng.choice(["(", ")", "'", "a", "-"]) for _ in range(rng.randint(0, 5))) + "\n")
                else:
                    body.append(rng.choice(["-", "a", " ", "1", "- ", "\n"]))
            s = rng.choice(["SELECT ", "", "SELECT a FROM t WHERE ", ")" * rng.randint(0, 3)]) + "".join(body) + "1" + ")" * rng.randint(0, d)
        else:               # an unterminated quote / comment hides a deep run
            s = "SELECT " + rng.choice(["'", '"', "`", "--", "-- '", "'a''"]) + "(" * rng.choice([47, 48, 70]) + rng.choice(["", "'", "\n", "\n" + "(" * 48])
        out.append(s)
    return out


def obs_of(result):
    """outcome class of one statement with a one-row, one-column answer -> Coq `obs` term"""
    if not isinstance(result, dict):
        return None
    if "panic" in result:
        return "OPanic"
    if "err" in result:
        return "OErr"
    if "ok" in result:
        rows = result["ok"].get("rows") or []
        if len(rows) != 1 or len(rows[0]) != 1:
            return None
        v = rows[0][0]
        if v is None:
            return "ONull"
        if isinstance(v, list) and len(v) == 2 and v[0] == "d":
            v = v[1]
        if isinstance(v, bool) or not isinstance(v, int):
            return None
        return f"(OVal {zlit(v)})"
    return None


def zlit(n):
    return f"({n})" if n < 0 else str(n)


def case_term(c, impls):
    """Coq term [impl == model; impl meets spec; known class] of one judged case; None when the harness gave no usable answer"""
    if c["kernel"] == "guard":
        if impls is None:
            return None
        cps = "[" + "; ".join(str(ord(ch)) for ch in c["s"]) + "]"
        return f"chk_guard {cps} {'true' if impls else 'false'}"
    if any(o is None for o in impls):
        return None
    if c["kernel"] == "int":
        lst = "[" + "; ".join(impls) + "]"
        if c["kind"] == "fold":
            return f"chk_lit {c['op']} {zlit(c['x'])} {zlit(c['y'])} {lst}"
        bits = 64 if c["kind"] == "widened" else c["bits"]
        return f"chk_int {c['op']} {bits} {zlit(c['x'])} {zlit(c['y'])} {lst}"
    if c["fn"] == "extract":
        return f"chk_extract {c['f']} {zlit(c['d'])} {impls[0]}"
    if c["fn"] == "trunc":
        return f"chk_trunc {c['u']} {zlit(c['d'])} {impls[0]}"
    return f"chk_add {c['u']} {zlit(c['v'])} {zlit(c['d'])} {impls[0]}"


def eval_kernel_cases(units):
    """units: [(harness case, [(judged case, [query idx])])] or guard cases. Returns (cases, impl_outs, eq, ok)"""
    hcases = [u[0] for u in units]
    if len(hcases) > 60:
        from concurrent.futures import ThreadPoolExecutor
        step = (len(hcases) + 5) // 6
        chunks = [hcases[i:i + step] for i in range(0, len(hcases), step)]
        with ThreadPoolExecutor(max_workers=6) as ex:
            outs = [o for part in ex.map(lambda ch: vlib.run_harness("c29k", ch), chunks) for o in part]
    else:
        outs = vlib.run_harness("c29k", hcases)
    cases, impls, terms = [], [], []
    for (hc, judged), o in zip(units, outs):
        if hc["mode"] == "guard":
            c = judged[0][0]
            cases.append(c)
            impls.append(o)
            terms.append(case_term(c, o.get("guard") if isinstance(o, dict) and "guard" in o else None))
            continue
        res = o.get("results") if isinstance(o, dict) else None
        for c, idx in judged:
            rs = [res[i] for i in idx] if res else [o]
            cases.append(c)
            impls.append(rs)
            terms.append(case_term(c, [obs_of(r) for r in rs]) if res else None)
    good = [i for i, t in enumerate(terms) if t is not None]
    shard = max(150, (len(good) + 5) // 6)                  # at most 6 coqc processes
    vals = vlib.coq_eval_list(REQ, "", [terms[i] for i in good], "c29k", shard=shard)
    eq, ok = [False] * len(cases), [False] * len(cases)
    for i, v in zip(good, vals):
        eq[i], ok[i] = v[0] == 1, v[1] == 1
    return cases, impls, eq, ok, terms


def join_chain_cases():
    """no model (the score is not observable): join chains of 2..14 relations over an empty and over tiny tables, with and
    without a filter (the `+ 1500` branch), must not panic"""
    units = []
    for rows in ([], [[1, 1]], [[1, 1], [2, 2], [2, 3]]):
        table = {"name": "r", "cols": [["k", "i64"], ["v", "i64"]], "rows": rows}
        qs = []
        for n in range(2, 15):
            chain = "SELECT count(*) FROM r AS j0" + "".join(f" JOIN r AS j{i} ON j{i}.k = j{i - 1}.k" for i in range(1, n))
            qs.append(chain)
            qs.append(chain + " WHERE j0.v > 0 AND j1.v < 5")
        units.append({"mode": "sql", "tables": [table], "queries": qs})
    return units


def kernels(ctx, proved):
    rng = ctx.rng
    t0 = time.time()
    units = []
    gs = guard_strings(rng, ctx.n(400, 4000))
    for s in gs:
        units.append(({"mode": "guard", "s": s}, [({"kernel": "guard", "s": s}, [])]))
    n_pairs = {}
    extra = 0 if proved else 300                             # a proof no longer checks: search harder
    for bits in (64, 32):
        prs = int_operands(rng, bits, ctx.n(60, 1500) + extra, not ctx.quick)
        n_pairs[bits] = len(prs)
        for x, y in prs:
            units.append(int_unit(bits, x, y))
    dvals = date_values(rng, ctx.n(60, 3000) + extra)
    for d in dvals:
        units.append(date_unit(rng, d))
    cases, impls, eq, ok, terms = eval_kernel_cases(units)
    unusable = [i for i, t in enumerate(terms) if t is None]
    # a guard-mode timeout is a hang of the parser on a statement the guard let through: a finding with its input
    for i in unusable[:3]:
        o = impls[i]
        hang = isinstance(o, dict) and o.get("timeout")
        ctx.violation({"kind": "parser did not return within 10 s" if hang else "harness gave no usable answer", "case": cases[i],
                       "impl_output": o}, found_input=bool(hang))
    keep = [i for i, t in enumerate(terms) if t is not None]
    jc, ji = [cases[i] for i in keep], [impls[i] for i in keep]
    ctx.judge(jc, [eq[i] for i in keep], [ok[i] for i in keep], classify=lambda c: None, impl_outs=ji)
    # join chains
    junits = join_chain_cases()
    jouts = vlib.run_harness("c29k", junits)
    jstat = {"ok": 0, "err": 0, "panic": 0}
    for u, o in zip(junits, jouts):
        for q, r in zip(u["queries"], (o.get("results") or [{"panic": str(o)}] * len(u["queries"]))):
            k = "panic" if "panic" in r else ("err" if "err" in r else "ok")
            jstat[k] += 1
            if k == "panic" and len(ctx.violations) < 6:
                ctx.violation({"kind": "statement panic", "case": {"kernel": "join", "tables": u["tables"], "sqls": [q]}, "impl_output": r}, found_input=True)
    by = {}
    for c in jc:
        key = c["kernel"] + (":" + c.get("kind", c.get("fn", "")) if c["kernel"] != "guard" else "")
        by[key] = by.get(key, 0) + 1
    outcome = {}
    for c, o in zip(jc, ji):
        if c["kernel"] == "guard":
            k = "guard:" + ("fired" if o.get("guard") else "passed:" + str(o.get("parse")))
            outcome[k] = outcome.get(k, 0) + 1
        else:
            for r in o:
                k = c["kernel"] + ":" + (obs_of(r) or "?").strip("()").split(" ")[0]
                outcome[k] = outcome.get(k, 0) + 1
    distinct = len({json.dumps({k: v for k, v in c.items() if k not in ("tables", "sqls")}, sort_keys=True) for c in jc
                    if not (c["kernel"] == "guard" and len(c["s"]) < 2)})
    kc = ctx.cov.setdefault("kernel_correspondence", {})
    kc.update({"judged_cases": len(jc), "statements": sum(len(u[0].get("queries", [1])) for u in units), "by_kernel": by, "impl_outcomes": outcome,
               "impl_equals_model": sum(1 for i in keep if eq[i]), "distinct_nontrivial": distinct,
               "guard_strings": len(gs), "guard_max_len": max(len(s) for s in gs), "int_pairs": n_pairs, "date32_values": len(dvals),
               "join_chains": {"statements": sum(jstat.values()), "outcomes": jstat,
                               "note": "estimate_relation_size_score is not observable; chains of 2..14 relations over an empty, a 1-row and a 3-row table, with and without a filter, must not panic"},
               "wall_s": round(time.time() - t0, 1)})
    shown = 0
    for c, o in zip(jc, ji):
        if c["kernel"] != "guard" and shown < 3 and (c["kernel"] == "date" or c.get("op") == 3):
            ctx.sample({"case": {k: v for k, v in c.items() if k != "tables"}, "impl_output": [json.dumps(r)[:120] for r in o]})
            shown += 1
    return len(jc) + sum(jstat.values()), sum(1 for i in keep if eq[i]) + jstat["ok"] + jstat["err"], distinct


def run(ctx):
    proved = ctx.prove()
    for m in ("c29", "c29k"):
        ok, log = vlib.build_harness(m)
        if not ok:
            raise vlib.HarnessBuildError(log)
    k_n, k_valid, k_distinct = kernels(ctx, proved)
    if not proved and not ctx.violations:
        ctx.proof_broken_violation(f"{k_n} kernel correspondence cases (guard strings, integer operand pairs, Date32 values), none "
                                   "violates the executable specs")
    s_n, s_valid, s_distinct = search(ctx)
    ctx.cov["evaluations"] = k_n + s_n
    ctx.cov["distinct_nontrivial"] = k_distinct + s_distinct
    ctx.cov["traces_validated_against_impl"] = k_valid + s_valid
    ctx.cov["input_distribution"] = {"kernel_correspondence": {k: ctx.cov["kernel_correspondence"][k] for k in
                                                                ("by_kernel", "guard_strings", "int_pairs", "date32_values")},
                                     "search": ctx.cov["search"]["input_distribution"]}
    return ctx.finish(
        level="other",
        rule="PROOF part: guard strings (token soup of ( ) ' '' \" ` -- - newline, runs of 45..60 live parentheses with quoted / commented "
             "ones inside, unterminated quotes and comments) -> parse_sql fired the guard or not vs the model; integer operand pairs "
             "(16x16 edge grid per width incl. MIN, MAX, -1, 0, sqrt(MAX), plus random and near-boundary pairs) x {+,-,*,/,%,unary -,abs} "
             "x statement forms (Int64/Int32 columns, CAST / unary-minus literals, folder-reachable literals, INT column with BIGINT "
             "literal) -> value/NULL/error/panic vs k_op / lit_op; Date32 values (i32 extremes, both ends of chrono's range day by "
             "day, leap days, random) x EXTRACT(YEAR|MONTH|DAY), DATE_TRUNC x 6 units, DATE_ADD x 4 units x counts up to i64 "
             "extremes vs the model; join chains of 2..14 relations (no panic). distinct/non-trivial = distinct case parameters. "
             "SEARCH part: regression corpus + directed boundary statements (i64/i32 overflow, /0, %0, LIMIT/OFFSET u64 max, huge "
             "literals, casts, string and date functions at extremes, unknown names, type mismatches, unsupported statements, odd "
             "Unicode incl. NUL) + 23 nesting/length shapes at sizes up to 2000 parentheses / 500 nested subqueries, CASE, NOT / "
             "5000-term chains and IN lists + random grammar statements + character/token mutations of those; each through "
             "ExecutionContext::sql against 3 tables",
        extra={"level_note": "partial by nature: machine-checked theorems (31 pins in Props/C29.v) for the logic cores in which the recorded "
                             "C29 defects lived, each tied to the code by correspondence; the rest of the property (no panic / abort / hang "
                             "anywhere else) is validated by search only",
               "explanation": "No executable model expresses that a 100k-line program never unwinds, overflows its stack or hangs. What is "
                              "logic is modelled and proved for all inputs; what is not is searched: every statement runs in a subprocess on "
                              "its own 8 MiB-stack thread under catch_unwind with a 10 s wall-clock limit; outcome classes are recorded; "
                              "panic / timeout / abort are violations unless the statement's shape is a class recorded in known_findings.txt."},
        assumptions=["sqlparser 0.62 parses (or rejects) in bounded time and stack every statement whose parenthesis depth, as computed by the "
                     "guard's own lexical rules, is <= 47: an assumption about third-party code, validated only by the search part (nested "
                     "CAST / parenthesis / subquery shapes at depth 47) — the theorems only say the guard computes that depth",
                     "arrow-arith 58 numeric::{add,sub,mul,div,rem,neg} are the checked kernels transcribed in Model.v (add_checked ... "
                     "div_checked, mod_wrapping, neg_checked) and chrono 0.4.45 from_num_days_from_ce_opt / checked_add_signed / "
                     "checked_add_months / from_ymd_opt behave as transcribed (YEAR_DELTAS by closed form, month/day of an ordinal by "
                     "cumulative month lengths): third-party code, modelled not verified, tied by the correspondence run",
                     "`(n as f64).log2() as i32` lies in [floor(log2 n), floor(log2 n) + 1] for 1 <= n < 2^64 (IEEE-754 rounding of the "
                     "conversion, libm log2 monotone, exact on powers of two and within 1 ulp); the score itself is not observable",
                     "strings are modelled as lists of code points (Rust chars()); usize counters cannot wrap because they are bounded by the "
                     "string length (theorem C29_guard_counters_bounded)",
                     "the harness is a dev-profile build (integer overflow checks on): arithmetic-overflow panics found here wrap silently in a release build",
                     "a hang shorter than 10 s per statement is not a finding"])


def replay(ctx, obj):
    c = obj.get("case") or obj.get("first_differing_case") or {}
    if "sql" in c:                                   # a statement of the search part
        ok, log = vlib.build_harness("c29")
        if not ok:
            raise vlib.HarnessBuildError(log)
        sql = c.get("sql", "")
        o = run_batch(vlib.harness_bin("c29"), [(0, sql)])[0]
        print("sql:", sql[:300]); print("outcome:", o)
        return 1 if o["outcome"] in ("panic", "timeout", "abort") else 0
    if c.get("kernel") == "guard":
        unit = ({"mode": "guard", "s": c["s"]}, [(c, [])])
    elif c.get("kernel") in ("int", "date", "join"):
        unit = ({"mode": "sql", "tables": c["tables"], "queries": c["sqls"]}, [(c, list(range(len(c["sqls"]))))])
    else:
        print("nothing to replay in", list(obj)[:8])
        return 1
    if c.get("kernel") == "join":
        o = vlib.run_harness("c29k", [unit[0]])[0]
        print("impl_output:", json.dumps(o)[:600])
        return 1 if any("panic" in r for r in o.get("results", [{"panic": 1}])) else 0
    cases, impls, eq, ok, terms = eval_kernel_cases([unit])
    print("case:", {k: v for k, v in c.items() if k != "tables"}); print("impl_output:", json.dumps(impls[0])[:600])
    print("coq term:", terms[0]); print("impl_equals_model:", eq[0], "spec_ok:", ok[0])
    return 0 if eq[0] and ok[0] else 1
