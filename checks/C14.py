"""C14 — digest interlock: theorems in coq/theories/Props/C14.v; correspondence of the real
coordinator::execute_fragment accept/refuse decision with C14.Model.guard on pairs of table copies
(initiator directory / worker directory) that differ in one split-relevant attribute, and on shard
indices in and out of range."""
import copy, importlib.util, os
import vlib
from vlib import zlit

_spec = importlib.util.spec_from_file_location("chk_C11_shared", os.path.join(os.path.dirname(os.path.abspath(__file__)), "C11.py"))
c11 = importlib.util.module_from_spec(_spec)
_spec.loader.exec_module(c11)

REQ = "From QV Require Import Base.Util C12.Model C11.Model C14.Model."
NAMES = ["a.parquet", "b.parquet", "c.parquet", "part-0.parquet", "part-00.parquet", "é.parquet", "Z.parquet", "ab.parquet"]
# empty_worker / empty_init: one copy holds the same file names with NO rows (zero splits) — a digest over nothing must still be
# compared (added after seeded change seeded/C14); empty_both: both copies empty (equal digests: the fragment runs over nothing)
KINDS = ["same", "same", "file_name", "layout", "row_count", "byte_size", "extra_file", "missing_file", "tamper",
         "empty_worker", "empty_worker", "empty_init", "empty_both"]


def gen_copy(rng):
    nf = rng.choice([1, 1, 2, 3])
    return [{"name": nm, "rows": [rng.choice([1, 2, 3, 5, 8, 13, 40]) for _ in range(rng.choice([1, 1, 2, 3]))],
             "width": rng.choice([1, 4, 9])} for nm in rng.sample(NAMES, nf)]


def compositions(rng, total):
    k = rng.randint(1, min(total, 4))
    cuts = sorted(rng.sample(range(1, total), k - 1)) if k > 1 else []
    return [b - a for a, b in zip([0] + cuts, cuts + [total])]


def gen_case(rng):
    kind = rng.choice(KINDS)
    init = gen_copy(rng)
    worker = copy.deepcopy(init)
    tamper = 0
    f = rng.choice(worker)
    if kind == "file_name":
        f["name"] = rng.choice([n for n in NAMES + ["x" + f["name"]] if n not in [g["name"] for g in worker]])
    elif kind == "layout":
        total = sum(f["rows"])
        if total < 2:
            f["rows"] = [2]; init[worker.index(f)]["rows"] = [2]; total = 2
        while True:
            new = compositions(rng, total)
            if new != f["rows"]:
                break
        f["rows"] = new
    elif kind == "row_count":
        i = rng.randrange(len(f["rows"]))
        f["rows"][i] = f["rows"][i] + 1 if (f["rows"][i] == 1 or rng.random() < 0.5) else f["rows"][i] - 1
    elif kind == "byte_size":
        f["width"] = rng.choice([w for w in [1, 2, 4, 9, 17] if w != f["width"]])
    elif kind == "extra_file":
        worker.append({"name": rng.choice([n for n in NAMES if n not in [g["name"] for g in worker]]), "rows": [rng.choice([1, 4])], "width": 1})
    elif kind == "missing_file":
        if len(worker) >= 2:
            worker.remove(f)
        else:
            init.append({"name": rng.choice([n for n in NAMES if n != f["name"]]), "rows": [3], "width": 1})
    elif kind == "tamper":
        tamper = 1 << rng.randrange(64)
    elif kind in ("empty_worker", "empty_both"):
        for g in worker:
            g["rows"] = []
        if kind == "empty_both":
            for g in init:
                g["rows"] = []
    elif kind == "empty_init":
        for g in init:
            g["rows"] = []
    count = rng.choice([0, 1, 2, 3, 4, 8, 16, 64])
    eff = max(count, 1)
    idx = rng.randrange(eff) if rng.random() < 0.7 else rng.choice([eff, eff + 1, 1000])
    io = list(range(len(init))); wo = list(range(len(worker)))
    rng.shuffle(io); rng.shuffle(wo)
    return {"table": rng.choice(["t", "lineitem"]), "kind": kind, "init": init, "worker": worker, "init_order": io,
            "worker_order": wo, "shard_count": count, "shard_index": idx, "tamper": tamper}


def case_defs(i, c, o, cterm):
    if "verdict" not in o:
        return f"Definition qv_case_{i} : list bool := cons false (cons false nil)."
    out = [f"Definition qv{i}_t : list Z := {c11.cbytes(c['table'])}."]
    out += [f"Definition qv{i}_i{k} : file := {c11.file_term(f)}." for k, f in enumerate(o["init_inventory"])]
    out += [f"Definition qv{i}_w{k} : file := {c11.file_term(f)}." for k, f in enumerate(o["worker_inventory"])]
    il = c11.clist(f"qv{i}_i{k}" for k in c["init_order"])
    wl = c11.clist(f"qv{i}_w{k}" for k in c["worker_order"])
    n, idx = zlit(c["shard_count"]), zlit(c["shard_index"])
    out.append(f"Definition qv{i}_W : splitset := enumerate_c {cterm} qv{i}_t {wl} {n}.")
    out.append(f"Definition qv{i}_I : splitset := enumerate_c {cterm} qv{i}_t {il} {n}.")
    eq = (f"(verdict_code (guard_fast (mkReq {o['request_digest']} {idx} {n}) qv{i}_W) =? {o['verdict']}) "
          f"&& (digest_fast qv{i}_W =? {o['worker_digest']}) && (digest_fast qv{i}_I =? {o['init_digest']})")
    ok = f"C14.Model.spec_ok {cterm} qv{i}_t {il} {wl} {idx} {n} {'true' if o['accepted'] else 'false'}"
    if c["tamper"]:
        # the request digest is not the initiator's: the property only demands refusal
        ok = "true" if not o["accepted"] else "false"
    out.append(f"Definition qv_case_{i} : list bool := cons ({eq}) (cons ({ok}) nil).")
    return "\n".join(out)


def evaluate(ctx, cases):
    consts = c11.read_consts()
    outs = vlib.run_harness("c14", cases)
    cterm = c11.consts_term(consts)
    vals = c11.eval_defs([case_defs(i, c, o, cterm) for i, (c, o) in enumerate(zip(cases, outs))], "c14", req=REQ)
    eq = [bool(v[0]) for v in vals]
    ok = []
    for v, o in zip(vals, outs):
        sane = (not o.get("accepted")) or (o.get("count") == o.get("stats_rows"))   # COUNT(*) of the shard = rows the assignment gave it
        ok.append(bool(v[1]) and sane)
    return outs, eq, ok


def run(ctx):
    proved = ctx.prove()
    n = ctx.n(220, 5000)
    cases = [gen_case(ctx.rng) for _ in range(n)]
    if not proved:
        cases += [gen_case(ctx.rng) for _ in range(400)]
    outs, eq, ok = evaluate(ctx, cases)
    ctx.cov["evaluations"] = len(cases)
    ctx.cov["distinct_nontrivial"] = len(set(repr((c["init"], c["worker"], c["shard_count"], c["shard_index"], c["tamper"]))
                                             for c in cases if c["kind"] != "same" or c["shard_index"] >= max(c["shard_count"], 1)))
    by_kind, verdicts = {}, {}
    for c, o in zip(cases, outs):
        k = (c["kind"], {0: "run", 1: "refuse_digest", 2: "refuse_range"}.get(o.get("verdict"), "other"))
        by_kind[str(k)] = by_kind.get(str(k), 0) + 1
    ctx.cov["input_distribution"] = {"by_kind_and_verdict": by_kind,
                                     "shard_counts": sorted(set(c["shard_count"] for c in cases)),
                                     "index_out_of_range": sum(1 for c in cases if c["shard_index"] >= max(c["shard_count"], 1)),
                                     "shard_count_zero_index_zero_accepted": sum(1 for c, o in zip(cases, outs) if c["shard_count"] == 0 and o.get("accepted"))}
    for c, o in list(zip(cases, outs))[:3]:
        ctx.sample({"input": c, "impl_output": o})
    ctx.judge(cases, eq, ok, impl_outs=outs)
    if not proved and not ctx.violations:
        ctx.proof_broken_violation(f"{len(cases)} generated copy pairs, none violates the executable spec")
    return ctx.finish(
        rule="pairs (initiator copy, worker copy) of a 1..3-file Parquet table written to two directories, the worker copy "
             "differing in exactly one of {nothing (files listed in another order), a file name, row-group layout, a row count, "
             "byte size, an extra file, a missing file} or the request digest tampered in one bit; shard_count in "
             "{0,1,2,3,4,8,16,64}, shard_index in and out of range; real execute_fragment accept / refuse(digest) / "
             "refuse(range) compared with the model; non-trivial = differing copies or out-of-range index",
        assumptions=["a refusal is recognised by the error text ('split digest mismatch' / 'out of range')",
                     "FNV-1a 64 has collisions: a differing worker copy whose digest collides would be accepted "
                     "(C14_collision_freedom_partial states what is and is not proved)",
                     "C11's assumptions on enumerate_parquet (the worker's split set is C11's model of its footers)"])


def replay(ctx, obj):
    c = obj.get("case") or obj.get("first_differing_case")
    outs, eq, ok = evaluate(ctx, [c])
    print("impl_output:", outs[0]); print("impl_equals_model:", eq[0], "spec_ok:", ok[0])
    return 0 if ok[0] and eq[0] else 1
