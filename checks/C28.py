"""C28 — each CTE reference yields that CTE's rows. Theorems: coq/theories/Props/C28.v.
Correspondence: statements with 1-3 CTEs referenced 1-3 times (FROM, self-joins, IN-subqueries, other CTE bodies), nested WITH
clauses in derived tables / IN-subqueries / CTE bodies that define a fresh name, re-define an outer name or take a table's
name, self-joins of two references to one CTE selecting the SAME column name from both; optimised and bound-unoptimised
plan on the engine vs the engine model (C28/Model.v: since /repo 78a9b54 a lexically scoped binder and a cache per
definition; the binder-global map + cache keyed by name remain as the `_before_fix` instance) vs lexical scoping with
inline evaluation."""
import vlib, sqlsub, relgen
from relgen import col, lit

CTES = [(10, "ca"), (11, "cb"), (12, "cc")]

def gen_tables(rng):
    out = []
    for name in ("t0", "t1"):
        n = rng.choice([1, 2, 3, 4, 6])
        p = rng.choice([0.0, 0.0, 0.2])
        rows = [[None if rng.random() < p else rng.choice([0, 1, 2, 3]), None if rng.random() < p else rng.choice([0, 1, 2, 5])]
                for _ in range(n)]
        if rng.random() < 0.4:
            rows.append(list(rng.choice(rows)))
        out.append({"name": name, "types": ["i64", "i64"], "rows": rows})
    return out

def ref(n):
    return ("wref", n[0], n[1])

def gen_pred(rng):
    return ("cmp", rng.choice(["CGe", "CLt", "CNe", "CEq"]), col(rng.choice([0, 1])), lit(rng.choice([0, 1, 2, 3])))

def gen_rel(rng, avail, depth, must=None):
    """a two-column relation over the visible names; `must`: a name to reference at least once"""
    k = rng.random()
    first = ref(must) if must else ref(rng.choice(avail))
    if depth <= 0 or k < 0.2:
        return first
    if k < 0.4:
        return ("wfilter", gen_rel(rng, avail, depth - 1, must), gen_pred(rng))
    if k < 0.5:
        a = gen_rel(rng, avail, depth - 1, must)
        return ("wproject", a, [col(1), ("arith", "AAdd", col(0), lit(1))] if rng.random() < 0.5 else [col(0), col(0)])
    if k < 0.8:
        l = gen_rel(rng, avail, depth - 1, must)
        r = gen_rel(rng, avail, depth - 1, must if rng.random() < 0.5 else None)
        jt = rng.choice(["JInner", "JInner", "JLeft"])
        on = ("cmp", "CEq", col(rng.choice([0, 1])), col(2 + rng.choice([0, 1])))
        return ("wproject", ("wjoin", jt, l, r, on), join_cols(rng))
    return ("win", gen_rel(rng, avail, depth - 1, must), col(rng.choice([0, 1])), gen_rel(rng, avail, depth - 1, None))

def join_cols(rng):
    """one column of each side, same names allowed: `x.c1, y.c1` over two references to one CTE"""
    return [col(rng.choice([0, 1])), col(2 + rng.choice([0, 1]))]

def nested(rng, avail, name):
    """(WITH name AS (def) body) usable wherever a query may stand; body references `name`"""
    d = gen_rel(rng, avail, 1)
    if rng.random() < 0.7:
        d = ("wfilter", d, gen_pred(rng))
    return ("wwith", name[0], name[1], d, gen_rel(rng, avail + [name], 1, must=name))

def gen_stmt(rng):
    tabs = [(0, "t0"), (1, "t1")]
    k = rng.randint(1, 3)
    avail = list(tabs)
    defs = []
    for n in CTES[:k]:
        d = gen_rel(rng, avail, rng.choice([0, 1, 1, 2]))
        if rng.random() < 0.6:
            d = ("wfilter", d, gen_pred(rng))
        defs.append((n, d))
        avail = avail + [n]
    shape = rng.choice(["refs", "refs", "self-join", "in-subquery", "nested-fresh", "nested-reuse", "nested-reuse",
                        "nested-reuse-in", "nested-table-name", "reuse-in-def", "sibling-reuse", "sibling-reuse"])
    target = rng.choice(CTES[:k])
    if shape == "refs":
        body = gen_rel(rng, avail, 2, must=target)
    elif shape == "self-join":
        on = ("cmp", "CEq", col(0), col(2))
        same = rng.choice([0, 1])          # the SAME column name from both references half of the time
        body = ("wproject", ("wjoin", "JInner", ref(target), ref(target), on),
                [col(same), col(2 + same)] if rng.random() < 0.5 else join_cols(rng))
        if rng.random() < 0.5:
            body = ("win", body, col(0), ref(target))
    elif shape == "in-subquery":
        body = ("win", gen_rel(rng, avail, 1), col(rng.choice([0, 1])), gen_rel(rng, avail, 1, must=target))
    elif shape == "sibling-reuse":
        # two SIBLING nested WITH clauses that define the same name differently (a fresh name, an outer CTE's name or a
        # table's name): each body must see its own definition (found by seeded change seeded/C28)
        nm = rng.choice([target, (13, "cd"), rng.choice(tabs)])
        a, b = nested(rng, avail, nm), nested(rng, avail, nm)
        if rng.random() < 0.6:
            body = ("wproject", ("wjoin", "JInner", a, b, ("cmp", "CEq", col(rng.choice([0, 1])), col(2 + rng.choice([0, 1])))),
                    join_cols(rng))
        else:
            body = ("win", a, col(rng.choice([0, 1])), b)
    else:
        if shape == "nested-fresh":
            nm = (13, "cd")
        elif shape == "nested-table-name":
            nm = rng.choice(tabs)
        else:
            nm = target
        if shape == "reuse-in-def" and k >= 2:
            # the LAST definition's body holds a nested WITH that re-defines an earlier name
            earlier = rng.choice(CTES[:k - 1])
            n_last, _ = defs[-1]
            defs[-1] = (n_last, nested(rng, avail[:-1], earlier))
            body = gen_rel(rng, avail, 2, must=earlier)
        else:
            nw = nested(rng, avail, nm)
            outer_ref = ref(nm) if nm in avail else ref(target)
            on = ("cmp", "CEq", col(0), col(2))
            if shape == "nested-reuse-in":
                body = ("win", outer_ref, col(0), nw)
                if rng.random() < 0.5:
                    body = ("wproject", ("wjoin", "JInner", body, outer_ref, on), join_cols(rng))
            else:
                l, r = (nw, outer_ref) if rng.random() < 0.5 else (outer_ref, nw)
                body = ("wproject", ("wjoin", "JInner", l, r, on), join_cols(rng))
    w = body
    for n, d in reversed(defs):
        w = ("wwith", n[0], n[1], d, w)
    return shape + f"/{k}cte", w

def count_refs(q, acc):
    if q[0] == "wref":
        acc[q[2]] = acc.get(q[2], 0) + 1
    elif q[0] == "wwith":
        count_refs(q[3], acc); count_refs(q[4], acc)
    elif q[0] in ("wfilter", "wproject"):
        count_refs(q[1], acc)
    elif q[0] == "wjoin":
        count_refs(q[2], acc); count_refs(q[3], acc)
    elif q[0] == "win":
        count_refs(q[1], acc); count_refs(q[3], acc)
    return acc

def gen_group(rng, nq):
    tables = gen_tables(rng)
    qs = []
    for _ in range(nq):
        kind, w = gen_stmt(rng)
        qs.append({"w": w, "kind": kind})
    return {"tables": tables, "queries": qs}

def run(ctx):
    proved = ctx.prove()
    groups = [gen_group(ctx.rng, 10) for _ in range(ctx.n(12, 200))]
    results = sqlsub.run_with(ctx, "c28", groups)
    ran, errs = sqlsub.judge(ctx, results, groups, max_error_rate=0.2)
    kinds, modes, refdist = {}, {}, {}
    for r in results:
        kinds[r["kind"]] = kinds.get(r["kind"], 0) + 1
        modes[r["mode"] + ":" + r["status"]] = modes.get(r["mode"] + ":" + r["status"], 0) + 1
    for g in groups:
        for x in g["queries"]:
            c = count_refs(x["w"], {})
            m = max([v for k, v in c.items() if k.startswith("c")] or [0])
            refdist[str(min(m, 4))] = refdist.get(str(min(m, 4)), 0) + 1
    ctx.cov["input_distribution"] = {"by_shape": kinds, "by_plan_and_status": modes, "max_references_to_one_cte": refdist,
        "groups": len(groups), "name_reuse": sum(1 for r in results if "cte-name-reuse" in r["classes"]),
        "deviating_from_reference": sum(1 for r in ran if not r["ok"]),
        "matched_only_with_another_cache_candidate": sum(1 for r in results if r.get("via_alternative_candidate"))}
    ctx.cov["distinct_nontrivial"] = len({r["sql"] + str(r["group"]) + r["mode"] for r in ran if r["n_sql_rows"] > 0})
    for r in results[:3]:
        ctx.sample({"sql": r["sql"], "mode": r["mode"], "tables": groups[r["group"]]["tables"], "classes": r["classes"]})
    if not proved and not ctx.violations:
        ctx.proof_broken_violation(f"{len(results)} WITH statement executions")
    return ctx.finish(rule="two tables (two int columns, NULL density 0-20%, duplicates) x 1-3 CTEs (bodies over tables and earlier "
                           "CTEs: filters, projections, joins, IN-subqueries) x body shape (1-3 references, self-join, reference "
                           "inside an IN-subquery, nested WITH with a fresh name / re-defining an outer name / taking a table's "
                           "name, in a derived table, an IN-subquery or a CTE body) x plan (optimised, bound unoptimised); "
                           "non-trivial = reference result non-empty, distinct by (statement, tables, plan)",
                      assumptions=["`e IN (subquery)` as a WHERE conjunct is evaluated as the Semi join on e = first column "
                                   "(C23_decorrelate_in_semi)", "all relations have two integer columns",
                                   "for a statement that reuses a name the engine may cache any candidate in any order "
                                   "(HashMap iteration, post-optimisation widths): the model is consulted for each"])

def replay(ctx, obj):
    print("failing case:", obj.get("case")); return run(ctx)
