"""C35 — the SQL front door decides and encodes consistently.
Theorems: coq/theories/Props/C35.v over C35/Model.v (server.rs: DistMode::parse, ResultFormat::parse, the readiness
gate, execute_statement, the /sql and /fragment handlers).
Correspondence: REAL in-process nodes (query_engine::distributed::spawn; single nodes, 2- and 3-node clusters, a
node whose load fails, a node that is still loading, dead peers, a peer with a different table copy), spawned once;
every POST /sql response (status, x-qe-* headers, decoded Arrow / JSON / CSV body) is compared with the response
`sql_handler` of the model predicts from (query string, readiness, members up, plannable, the local engine's
result, the distributed run's result) and judged by the executable spec `spec_ok`."""
import frontdoor as fd
import vlib
from vlib import zlit, blit

REQ = "From QV Require Import C35.Model."
SQL0 = "SELECT k FROM t"
AGG = "SELECT g, COUNT(*) AS c FROM big GROUP BY g"
CLASS_BY_CODE = {1: "json-duplicate-column-names", 2: "json-non-finite-double", 3: "csv-empty-string"}


FORCE_PROBE = "distributed=force"


def stmt(cluster, node, sql, http, tag):
    """Every case ends with the plain force request for its statement on its node: the observation of what the distributed run
    over this node's Up members yields in this run (e_dist).  It is never defaulted."""
    return {"op": "stmt", "cluster": cluster, "node": node, "sql": sql, "http": list(http) + [FORCE_PROBE], "flight": [], "tag": tag}


def three_modes(rng, fmts=None):
    """one request per mode (spelled variously), each in some format; plus auto in the other formats now and then"""
    out = []
    for mode in ("force", "off", "auto"):
        f = rng.choice(["arrow", "json", "csv"]) if fmts is None else rng.choice(fmts)
        out.append(fd.join_qs(rng, [fd.mode_qs(rng, mode), fd.fmt_qs(rng, f)]))
    if rng.random() < 0.5:
        for f in ("arrow", "json", "csv"):
            out.append(fd.join_qs(rng, [fd.mode_qs(rng, "auto"), fd.fmt_qs(rng, f)]))
    return out


def build_cases(ctx):
    rng = ctx.rng
    cases = [fd.setup_case()]
    n_stmt = ctx.n(70, 900)
    n_qs = ctx.n(25, 300)
    where = [("single", 0)] * 3 + [("tri", 0), ("tri", 1), ("tri", 2)] * 2 + [("duo", 0), ("duo", 1), ("lonely", 0),
                                                                               ("bad", 0), ("failpeer", 0), ("blockpeer", 0),
                                                                               ("unk1", 0), ("unk1", 0), ("unk3", 0), ("unk3", 1)]
    # ---- phase 1: every cluster intact
    for _ in range(n_stmt):
        cl, node = rng.choice(where)
        sql, fam = fd.gen_statement(rng)
        cases.append(stmt(cl, node, sql, three_modes(rng), fam))
    # the result shapes a text encoding cannot carry, in every format, every run
    for cl in ("single", "tri"):
        for sql in ("SELECT * FROM nn", "SELECT k AS a, s AS a FROM t", "SELECT CAST(k AS DOUBLE) / 0 AS z FROM t"):
            cases.append(stmt(cl, 0, sql, ["format=json", "format=csv", "format=arrow&distributed=0", "distributed=1&format=json",
                                           "distributed=0&format=csv"], "quirk"))
    # a peer that discovery has listed but no probe has reached (Unknown): it is not a member that is up.  Next to it alone
    # (unk1) auto answers locally with "only one cluster member is up"; with one Up peer beside it (unk3) auto distributes
    # over exactly the two Up members and the Unknown one is sent nothing
    for cl, node in (("unk1", 0), ("unk3", 0), ("unk3", 1)):
        for sql in (AGG, SQL0, "SELECT id, s FROM big WHERE id >= 5000", "SELECT DISTINCT g FROM big"):
            c = stmt(cl, node, sql, ["", "format=json", "format=csv&distributed=auto", "distributed=0&format=json"], "unknown-peer")
            c["expect_dist_ok"] = True
            cases.append(c)
    # the no-fallback situations, by construction: a peer that is up (answers /healthz) but fails its fragment
    for cl in ("bad", "failpeer", "blockpeer"):
        for sql in (AGG, "SELECT id FROM big WHERE id < 10"):
            c = stmt(cl, 0, sql, three_modes(rng, ["json"]) + ["format=csv", ""], "nofallback")
            c["expect_dist_fail"] = True
            cases.append(c)
    # query strings: on a single node the three modes and three formats are all distinguishable from outside
    for _ in range(n_qs):
        cases.append(stmt("single", 0, SQL0, [fd.gen_query_string(rng) for _ in range(8)], "querystring"))
    cases.append(stmt("single", 0, SQL0, ["", "distributed=1&distributed=0", "distributed", "distributed=", "Distributed=1",
                                          "distributed=TRUE", "x=distributed=1", "distributed=1=2", "&&distributed=no&",
                                          "distributed=off", "distributed=%31", "format=ipc", "format=arrow&format=csv",
                                          "format=CSV", "format=", "format", "a=b&format=json&distributed=local",
                                          "format=csv&distributed=force"], "querystring"))
    # bodies
    for node_cl in ("single", "tri"):
        for body, blank, utf8 in (("", True, True), ("  \n\t ", True, True), ({"bytes": [0xff, 0x20, 0x41]}, False, False),
                                  ("  " + SQL0 + " \n", False, True), ({"pad": fd.CAP + 1, "byte": 120}, False, True),
                                  ({"prefix": SQL0 + " /*", "pad": fd.CAP - 40, "byte": 120, "suffix": "*/"}, False, True)):
            cases.append({"op": "http", "cluster": node_cl, "node": 0, "path": "/sql?format=json&distributed=0", "body": body,
                          "tag": "body", "blank": blank, "utf8": utf8})
    # ---- not-ready nodes: a failed load, a load still in progress
    for cl in ("failpeer", "blockpeer"):
        cases.append(stmt(cl, 1, SQL0, ["", "format=json", "format=csv&distributed=1", "distributed=0", "format=xml",
                                        "distributed=maybe", "distributed=off"] + [fd.gen_query_string(rng) for _ in range(6)],
                          "notready"))
        sql, _ = fd.gen_statement(rng)
        cases.append(stmt(cl, 1, sql, three_modes(rng), "notready"))
        for body, parses in (("garbage", False), ("{}", False), ({"pad": 2000, "byte": 120}, False)):
            cases.append({"op": "http", "cluster": cl, "node": 1, "path": "/fragment", "body": body, "tag": "fragment",
                          "parses": parses})
    for body, parses in (("garbage", False), ("{}", False), ({"pad": fd.CAP + 1, "byte": 120}, False)):
        cases.append({"op": "http", "cluster": "single", "node": 0, "path": "/fragment", "body": body, "tag": "fragment",
                      "parses": parses})
    # ---- phase 2: the loading node finishes; peers die
    cases.append({"op": "release", "cluster": "blockpeer", "node": 1, "tag": "op"})
    for node in (1, 0):
        cases.append(stmt("blockpeer", node, AGG, three_modes(rng, ["json"]), "after-release"))
        cases.append(stmt("blockpeer", node, SQL0, three_modes(rng), "after-release"))
    cases.append({"op": "kill", "cluster": "duo", "node": 1, "tag": "op"})
    cases.append({"op": "kill", "cluster": "tri", "node": 2, "tag": "op"})
    for _ in range(ctx.n(6, 40)):
        sql, fam = fd.gen_statement(rng)
        cases.append(stmt("duo", 0, sql, three_modes(rng), "after-kill"))
        cases.append(stmt("tri", rng.choice([0, 1]), sql, three_modes(rng), "after-kill"))
    cases.append(stmt("duo", 0, AGG, three_modes(rng, ["json"]), "after-kill"))
    cases.append(stmt("tri", 0, AGG, three_modes(rng, ["json"]), "after-kill"))
    return cases


def find_mode_request(o, want):
    """the request of this case whose distributed= spelling is a `want` spelling and whose parameters are plain"""
    for h in o["http"]:
        vals = [p.split("=", 1)[1] for p in h["qs"].split("&") if p.startswith("distributed=")]
        keys = [p for p in h["qs"].split("&") if p and not p.startswith("distributed=") and not p.startswith("format=")]
        if keys:
            continue
        if want == "force" and vals and vals[0] in fd.FORCE_WORDS:
            return h
        if want == "off" and vals and vals[0] in fd.OFF_WORDS:
            return h
    return None


def units_of(cases, outs):
    """Flatten to judged units: one per HTTP request (and per /fragment or body probe)."""
    units = []
    for ci, (c, o) in enumerate(zip(cases, outs)):
        if c["op"] == "stmt":
            if "http" not in o:
                units.append({"kind": "broken", "case": c, "out": o})
                continue
            local = o["local"]
            e_local = fd.run_term_of_local(local)
            if c.get("expect_dist_fail"):
                e_dist = "(RunErr KOther)"
            elif c.get("expect_dist_ok"):
                # every member that is Up is healthy here: a distributed run over the Up members yields what the engine yields
                e_dist = e_local
            else:
                f = o["http"][-1] if o["http"] and o["http"][-1].get("qs") == FORCE_PROBE and "status" in o["http"][-1] else None
                e_dist = fd.run_term_of_response(f) if f is not None else None
            stable = o.get("members") == o.get("members_after")
            if e_dist is None:
                # no observation of the distributed run for this case: not judged, counted
                units.append({"kind": "unobserved", "case": c, "out": o})
                continue
            for hi, h in enumerate(o["http"]):
                units.append({"kind": "sql", "case": c, "ci": ci, "hi": hi, "h": h, "out": o, "local": local,
                              "env": fd.env_term(o, e_local, e_dist), "stable": stable, "sql_len": len(c["sql"].encode())})
        elif c["op"] == "http" and c["tag"] == "body":
            units.append({"kind": "body", "case": c, "ci": ci, "out": o})
        elif c["op"] == "http" and c["tag"] == "fragment":
            units.append({"kind": "fragment", "case": c, "ci": ci, "out": o})
    return units


def body_len(spec):
    if isinstance(spec, str):
        return len(spec.encode())
    if "bytes" in spec:
        return len(spec["bytes"])
    return len(spec.get("prefix", "").encode()) + spec.get("pad", 0) + len(spec.get("suffix", "").encode())


def unit_term(u):
    if u["kind"] == "sql":
        h, o, local = u["h"], u["out"], u["local"]
        if "client_error" in h or "status" not in h:
            return "[false; false; false]", 0
        obs, _ = fd.response_term(h, o)
        view = fd.encoding_view(h, local)
        rq = "(mkReq %s %s true false true)" % (fd.bl(h["qs"]), zlit(u["sql_len"]))
        shape = "(mkShape %s %s %s)" % (blit(bool(local.get("has_nonfinite"))), blit(bool(local.get("has_empty_str"))),
                                        blit(bool(local.get("dup_names"))))
        exact = fd.rows_ok(h, local, "bag")
        modelled = fd.rows_ok(h, local, view)
        t = ("(let e := %s in let rq := %s in let o := %s in "
             "[response_eqb o (sql_handler rq e) && %s; "
             "match dist_mode_parse (r_query rq) with Some m => spec_ok m e (request_valid rq) o %s | None => negb (is_rows o) end; "
             "match o with RespRows f _ _ => (known_encoding f %s =? %d) | _ => true end])"
             % (u["env"], rq, obs, blit(modelled), blit(exact), shape,
                {None: 0, "json-duplicate-column-names": 1, "json-non-finite-double": 2, "csv-empty-string": 3}[fd.encoding_class(h, local)]))
        return t, 0
    if u["kind"] == "body":
        c, o = u["case"], u["out"]
        if "status" not in o:
            return "[false; false; false]", 0
        h = {"status": o["status"], "headers": o.get("headers", {}), "error": o.get("error")}
        obs, _ = fd.response_term(h, {"plan_error": None})
        rq = "(mkReq %s %s %s %s true)" % (fd.bl("format=json&distributed=0"), zlit(body_len(c["body"])), blit(c["utf8"]), blit(c["blank"]))
        e = "(mkEnv Loaded 1 true RunOk RunOk)"
        return "(let o := %s in let rq := %s in [response_eqb o (sql_handler rq %s); spec_ok Off %s (request_valid rq) o true; true])" % (obs, rq, e, e), 0
    if u["kind"] == "fragment":
        c, o = u["case"], u["out"]
        st = o.get("status")
        err = o.get("error") or ""
        obs = {503: "(Frag503 %s)" % blit(err.startswith("tables failed to load")), 413: "Frag413", 400: "Frag400"}.get(st, "FragRuns")
        load = "Loaded" if o.get("loaded") else ("LoadFailed" if o.get("load_error") else "Loading")
        e = "(mkEnv %s 1 true RunOk RunOk)" % load
        ready_ok = blit(st == 503) if load != "Loaded" else "true"
        return "[frag_eqb %s (fragment_handler %s %s %s); %s; true]" % (obs, e, zlit(body_len(c["body"])), blit(c["parses"]), ready_ok), 0
    if u["kind"] == "unobserved":
        return "[true; true; true]", 0
    return "[false; false; false]", 0


def evaluate(ctx, cases):
    outs = vlib.run_harness("c35", cases, timeout=3000)
    units = units_of(cases, outs)
    vals = vlib.coq_eval_list(REQ, "", [unit_term(u)[0] for u in units], "c35", shard=250)
    eq, ok = [], []
    for u, v in zip(units, vals):
        e, k = bool(v[0]), bool(v[1]) and bool(v[2])
        if u["kind"] == "sql":
            _, text_ok = fd.response_term(u["h"], u["out"]) if "status" in u["h"] else ("", False)
            if not u["stable"]:
                e, k = True, True            # membership moved while the case ran: not judged (counted)
            else:
                k = k and text_ok
                c = u["case"]
                if c.get("expect_dist_fail") and u["h"].get("status") == 200 and u["h"]["headers"].get("x-qe-distributed") == "true":
                    k = False
                # fragments go to members that are Up and to no one else
                hd = u["h"].get("headers", {})
                if u["h"].get("silent_fragments", 0) != 0:
                    k = False
                    u["why"] = ("this request sent %d fragment(s) to a peer that is not Up (status Unknown: listed by discovery, never reached "
                                "by a probe); members %s" % (u["h"]["silent_fragments"], u["out"]["members"].get("status")))
                if u["h"].get("status") == 200 and hd.get("x-qe-distributed") == "true" and hd.get("x-qe-shards") != str(u["out"]["members"]["up"]):
                    k = False
                    u["why"] = "x-qe-shards=%s but %d members are up" % (hd.get("x-qe-shards"), u["out"]["members"]["up"])
        eq.append(e)
        ok.append(k)
    return outs, units, eq, ok


def classify(u):
    if u.get("kind") == "sql":
        return fd.encoding_class(u["h"], u["local"])
    return None


def run(ctx):
    proved = ctx.prove()
    cases = build_cases(ctx)
    outs, units, eq, ok = evaluate(ctx, cases)
    ctx.cov["evaluations"] = len(units)
    sqlu = [u for u in units if u["kind"] == "sql"]
    seen = set()
    dist = {"not_ready_503": 0, "auto_distributed": 0, "auto_local_one_member": 0, "auto_local_unplannable": 0,
            "force_distributed": 0, "force_error": 0, "off_local": 0, "no_fallback_errors": 0, "param_400": 0,
            "error_responses": 0, "unstable_membership_skipped": 0, "formats": {"arrow": 0, "json": 0, "csv": 0},
            "rows_over_4096": 0, "empty_results": 0, "clusters": {}, "known_class_units": {},
            "membership_state(up incl. self, unknown, down)": {}, "auto_local_beside_unknown_peer": 0,
            "auto_distributed_over_up_members_with_unknown_peer_listed": 0, "fragments_sent_to_unknown_peers": 0}
    for u in sqlu:
        h, o = u["h"], u["out"]
        st = h.get("status")
        hd = h.get("headers", {})
        cl = u["case"]["cluster"]
        dist["clusters"][cl] = dist["clusters"].get(cl, 0) + 1
        ms = o.get("members") or {}
        mk = "up=%s unknown=%s down=%s" % (ms.get("up"), ms.get("unknown"), ms.get("down"))
        dist["membership_state(up incl. self, unknown, down)"][mk] = dist["membership_state(up incl. self, unknown, down)"].get(mk, 0) + 1
        dist["fragments_sent_to_unknown_peers"] += o.get("silent_fragments", 0) if u["hi"] == 0 else 0
        if ms.get("unknown") and st == 200:
            if hd.get("x-qe-distributed-skipped") == "only one cluster member is up":
                dist["auto_local_beside_unknown_peer"] += 1
            elif hd.get("x-qe-distributed") == "true":
                dist["auto_distributed_over_up_members_with_unknown_peer_listed"] += 1
        if not u["stable"]:
            dist["unstable_membership_skipped"] += 1
        if st == 503:
            dist["not_ready_503"] += 1
        if st == 400 and (h.get("error") or "").startswith("unknown "):
            dist["param_400"] += 1
        if st == 200:
            dist["formats"][h.get("format", "arrow")] = dist["formats"].get(h.get("format", "arrow"), 0) + 1
            n = (h.get("decoded") or {}).get("bag", {}).get("n", 0)
            dist["rows_over_4096"] += 1 if n > 4096 else 0
            dist["empty_results"] += 1 if n == 0 else 0
            sk = hd.get("x-qe-distributed-skipped")
            is_force = fd.response_term(h, o)[0].startswith("(RespRows") and hd.get("x-qe-distributed") == "true"
            if sk == "only one cluster member is up":
                dist["auto_local_one_member"] += 1
            elif sk == "distributed=0 requested":
                dist["off_local"] += 1
            elif sk is not None:
                dist["auto_local_unplannable"] += 1
            elif is_force:
                dist["force_distributed" if any(p.split("=")[-1] in fd.FORCE_WORDS for p in h["qs"].split("&") if p.startswith("distributed=")) else "auto_distributed"] += 1
        elif st is not None and st not in (503,):
            dist["error_responses"] += 1
            if u["case"].get("expect_dist_fail") and "distributed=0" not in h["qs"] and not any(
                    p.split("=")[-1] in fd.OFF_WORDS for p in h["qs"].split("&") if p.startswith("distributed=")):
                dist["no_fallback_errors"] += 1
        c = classify(u)
        if c:
            dist["known_class_units"][c] = dist["known_class_units"].get(c, 0) + 1
        if st is not None and (u["case"]["tag"] != "querystring" or h["qs"]):
            seen.add((u["case"]["cluster"], u["case"]["node"], u["case"]["sql"] if isinstance(u["case"]["sql"], str) else "pad", h["qs"]))
    dist["cases_not_judged_for_lack_of_a_distributed_run_observation"] = sum(1 for u in units if u["kind"] == "unobserved")
    ctx.cov["distinct_nontrivial"] = len(seen)
    ctx.cov["input_distribution"] = dist
    for u in sqlu[:2] + [u for u in sqlu if u["case"].get("expect_dist_fail")][:2]:
        ctx.sample({"cluster": u["case"]["cluster"], "node": u["case"]["node"], "sql": u["case"]["sql"], "query": u["h"]["qs"],
                    "members": u["out"]["members"], "plannable": u["out"]["plannable"], "status": u["h"].get("status"),
                    "headers": u["h"].get("headers"), "error": u["h"].get("error"), "model_env": u["env"]})
    slim = [{"i": i, "kind": u["kind"], "case": {k: v for k, v in u["case"].items()}, "request": u.get("h", {}).get("qs"),
             "env": u.get("env"), "members": (u.get("out") or {}).get("members"), "why": u.get("why")} for i, u in enumerate(units)]
    impl = [({"response": {k: v for k, v in u["h"].items() if k != "decoded"}, "decoded": {k: (v if k != "bag" else {kk: vv for kk, vv in v.items() if kk != "rows" or len(vv) <= 12}) for k, v in (u["h"].get("decoded") or {}).items()},
              "local": {k: v for k, v in u["local"].items() if k not in ("bag", "csv_bag", "json_bag")}, "members": u["out"].get("members"),
              "plannable": u["out"].get("plannable")} if u["kind"] == "sql" else u["out"]) for u in units]
    ctx.judge(slim, eq, ok, classify=lambda s: classify(units[s["i"]]), impl_outs=impl)
    if not proved and not ctx.violations:
        ctx.proof_broken_violation(f"{len(units)} front-door requests against real nodes, none violates the executable spec")
    return ctx.finish(
        rule="REAL nodes spawned once per run (single, 3-node, 2-node, dead-peer, failed-load peer, still-loading peer, peer with "
             "another copy of `big`, and peers that discovery lists but no probe reaches - status Unknown - alone and next to an Up peer: a "
             "test-owned socket that never answers /healthz, answers 500 to /fragment and counts the fragments it is sent); seeded statements over three Parquet tables (rows, >4096 rows, empty, exactly-mergeable "
             "aggregates, unmergeable shapes, no base table, errors, shapes the text encodings cannot carry) x {auto, force, local} "
             "spelled variously x {arrow, json, csv}; random query strings around distributed=/format=; empty / blank / non-UTF-8 / "
             "oversized bodies; /fragment on ready and not-ready nodes; then the loading node is released and peers are killed. "
             "One evaluation = one HTTP request judged against sql_handler/fragment_handler and spec_ok; non-trivial = distinct "
             "(cluster, node, statement, query string) that reached the server",
        assumptions=["the local engine result (ExecutionContext::sql in the harness process on the same Parquet files) is the "
                     "reference for `rows the engine returned`; aggregates are over integer columns only, so distributed and local "
                     "answers are bitwise comparable",
                     "e_dist (what the distributed run yields) is observed, never defaulted: every case ends with the plain distributed=force request for its "
                     "statement on its node in the same run (cases without that observation are left unjudged and counted), or it is fixed by "
                     "construction for the peers that must fail their fragment (error) and for the clusters whose Up members are all "
                     "healthy (= the engine's own result); members_up = self + peers last seen Up (harness reads Membership::members())",
                     "fragments must reach Up members only: the silent peer's fragment counter must stay 0 and x-qe-shards must equal "
                     "the number of Up members",
                     "arrow's IPC/JSON/CSV writers and the harness's readers (arrow IPC reader, serde_json, an RFC 4180 reader written "
                     "in harness/src/frontdoor.rs) are external to the model; bodies are tied by decoding, not by modelling the writers",
                     "timeouts, TLS, concurrent requests and shutdown draining are out of scope"])


def replay(ctx, obj):
    c = obj.get("case") or obj.get("first_differing_case")
    case = c["case"]
    cl = case["cluster"]
    pre = [fd.setup_case([cl])]
    outs, units, eq, ok = evaluate(ctx, pre + [{k: v for k, v in case.items()}])
    bad = 0
    for u, e, k in zip(units, eq, ok):
        print("request:", u.get("h", {}).get("qs"), "status:", u.get("h", {}).get("status", u["out"].get("status")),
              "impl_equals_model:", e, "spec_ok:", k)
        bad += 0 if (e and k) else 1
    return 1 if bad else 0
