"""C37 — vector encodings round-trip; codec helpers vs Arrow kernels.
Theorems: coq/theories/Props/C37.v.  Correspondence: harness c37 (real analyze_encoding / encode_optimal /
decode, real filter_simd/compare_simd/add_simd/multiply_simd/sum_simd/count_simd AND the real Arrow kernels)
vs C37.Model (helpers transcribed + list-level Arrow kernels)."""
import os, re, struct
from fractions import Fraction
import vlib
from vlib import zlit

REQ = "From QV Require Import Base.Util C37.Model."
PRELUDE = "Definition b2z (b : bool) : Z := if b then 1 else 0.\n"
TY = {"i32": "TInt32", "i64": "TInt64", "f64": "TFloat64", "utf8": "TUtf8", "bool": "TBool"}
CNAN = 0x7FF8000000000000
I64MAX, I64MIN = 2**63 - 1, -2**63


# ---------------- thresholds from the source (re-read every run) ----------------
def read_thresholds():
    src = open(os.path.join(vlib.REPO, "src/arrow_ffi/array.rs")).read()
    m1 = re.search(r"if\s+rle_ratio\s*>\s*([0-9]+(?:\.[0-9]+)?)", src)
    m2 = re.search(r"if\s+dict_ratio\s*>\s*([0-9]+(?:\.[0-9]+)?)", src)
    if not (m1 and m2):
        return None
    return Fraction(m1.group(1)), Fraction(m2.group(1)), m1.group(1), m2.group(1)


def thr_term(fr):
    return f"({fr.numerator}, {fr.denominator})"


# ---------------- IEEE helpers (CPython floats are binary64) ----------------
def f2b(f):
    return struct.unpack("<Q", struct.pack("<d", f))[0]


def b2f(b):
    return struct.unpack("<d", struct.pack("<Q", b))[0]


def canon(b):
    f = b2f(b)
    return CNAN if f != f else b


def fop(op, a, b):
    x, y = b2f(a), b2f(b)
    return canon(f2b(x + y if op == "add" else x * y))


# ---------------- generation ----------------
STRS = ["", "a", "b", "ab", "NULL", "é", "zz", "a\u0000", "null"]
F_SPECIAL = [0, 2**63, f2b(1.0), f2b(-1.0), f2b(float("inf")), f2b(float("-inf")), CNAN, 0xFFF8000000000000,
             0x7FF0000000000001, 1, f2b(1.5), f2b(2.0), f2b(0.1)]


def gen_vals(rng, ty, n, style):
    def pick():
        if ty in ("i64", "i32"):
            lim = 2**31 - 1 if ty == "i32" else I64MAX
            if style == "edge":
                return rng.choice([0, 1, -1, lim, -lim - 1, lim - 1, 2**31 if ty == "i64" else 7, 3037000500 if ty == "i64" else 46341])
            return rng.randint(-3, 3) if style in ("runs", "const") else rng.randint(-1000, 1000)
        if ty == "f64":
            if style == "edge":
                return rng.choice(F_SPECIAL)
            if style == "exact":
                return f2b(rng.randint(-2**20, 2**20) / 8.0) or 0
            return f2b(rng.choice([0.5, 1.0, 2.0, -1.0, 0.25])) if style in ("runs", "const") else f2b(rng.uniform(-100, 100))
        if ty == "bool":
            return rng.random() < 0.5
        return rng.choice(STRS[:3] if style in ("runs", "const", "few") else STRS)
    if style == "const":
        v = pick()
        return [v] * n
    if style == "runs":
        out = []
        while len(out) < n:
            out += [pick()] * rng.choice([1, 2, 5, 9, 20])
        return out[:n]
    return [pick() for _ in range(n)]


def gen_arr(rng, ty, n, style=None, nulls=None):
    """array spec for the harness: a longer physical array plus (off,len) window"""
    style = style or rng.choice(["const", "runs", "runs", "random", "edge"])
    nulls = nulls if nulls is not None else rng.choice(["none", "none", "some", "some", "runs", "all"])
    off = rng.choice([0, 0, 1, 3, 8])
    tail = rng.choice([0, 0, 2])
    total = off + n + tail
    vals = gen_vals(rng, ty, total, style)
    if nulls == "none":
        valid = [True] * total
    elif nulls == "all":
        valid = [False] * total
    elif nulls == "runs":
        valid, cur = [], True
        while len(valid) < total:
            valid += [cur] * rng.choice([1, 3, 8])
            cur = not cur
        valid = valid[:total]
    else:
        valid = [rng.random() < 0.75 for _ in range(total)]
    if ty == "utf8":
        vals = [v if ok else "" for v, ok in zip(vals, valid)]      # StringArray::from(Vec<Option<&str>>)
    elif rng.random() < 0.5 and style in ("const", "runs"):
        pass                                                         # physical value under NULL continues the run
    a = {"ty": ty, "vals": vals, "valid": valid, "off": off, "len": n}
    if rng.random() < 0.2:
        a["force_nullbuf"] = True
    if n >= 2 and rng.random() < 0.15:
        o2 = rng.randint(0, n - 1)
        a["slice2"] = [o2, rng.randint(0, n - o2)]
    return a


def window(a):
    """(vals, valid) the code sees"""
    v = a["vals"][a["off"]:a["off"] + a["len"]]
    k = a["valid"][a["off"]:a["off"] + a["len"]]
    if "slice2" in a:
        o2, l2 = a["slice2"]
        v, k = v[o2:o2 + l2], k[o2:o2 + l2]
    return v, k


def pick_len(rng, quick):
    return rng.choice([0, 1, 1, 2, 3, 5, 7, 8, 10, 10, 11, 16, 20, 20, 21, 33] + ([] if quick else [64, 100, 150]))


def gen_case(rng, quick):
    op = rng.choice(["encode"] * 4 + ["filter"] * 2 + ["cmp"] * 3 + ["add"] * 2 + ["mul"] * 2 + ["sum"] * 3 + ["count"])
    ty = rng.choice(["i64", "i64", "f64", "f64", "utf8", "utf8", "i32", "bool"])
    n = pick_len(rng, quick)
    if op == "encode":
        if ty == "utf8" and rng.random() < 0.4:      # few distinct values, many short runs: the Dictionary branch
            return {"op": op, "arr": gen_arr(rng, ty, n, "few", rng.choice(["none", "none", "none", "some"]))}
        return {"op": op, "arr": gen_arr(rng, ty, n)}
    if op == "filter":
        a = gen_arr(rng, ty, n)
        m = len(window(a)[0])
        return {"op": op, "arr": a, "pred": [rng.random() < 0.6 for _ in range(m)]}
    if op in ("cmp", "add", "mul"):
        st = rng.choice(["random", "edge", "runs"]) if op == "cmp" else rng.choice(["random", "random", "edge"])
        nl = rng.choice(["none", "none", "none", "some"])
        l = gen_arr(rng, ty, n, st, nl)
        l.pop("slice2", None)
        n2 = n + 1 if (op == "cmp" and rng.random() < 0.05) else n
        r = gen_arr(rng, ty, n2, st, rng.choice(["none", "none", "none", "some"]))
        r.pop("slice2", None)
        if op == "cmp" and rng.random() < 0.3 and n2 == n:      # make equal pairs likely
            lv, lk = window(l)
            for i in range(n):
                if rng.random() < 0.5:
                    r["vals"][r["off"] + i] = lv[i] if (ty != "utf8" or r["valid"][r["off"] + i]) else ""
        c = {"op": op, "l": l, "r": r}
        if op == "cmp":
            c["cmp"] = rng.choice(["eq", "ne", "lt", "le", "gt", "ge"])
        return c
    if op == "sum":
        ty = rng.choice(["i64", "i64", "f64", "f64", "i32", "utf8", "bool"])
        st = "exact" if ty == "f64" else rng.choice(["random", "random", "edge", "runs"])
        return {"op": op, "arr": gen_arr(rng, ty, n, st)}
    return {"op": op, "arr": gen_arr(rng, ty, n)}


# ---------------- rendering ----------------
def val_term(ty, v):
    if ty == "utf8":
        return "(VS " + vlib.bytes_of_str(v) + ")"
    if ty == "bool":
        return "(VI 1)" if v else "(VI 0)"
    return f"(VI {zlit(v)})"


def arr_term(a):
    slots = "; ".join(f"({'true' if k else 'false'}, {val_term(a['ty'], v)})" for v, k in zip(a["vals"], a["valid"]))
    t = f"(aslice {a['off']} {a['len']} (mkArr {TY[a['ty']]} [{slots}]))"
    if "slice2" in a:
        t = f"(aslice {a['slice2'][0]} {a['slice2'][1]} {t})"
    return t


def view_term(ty, view):
    return "[" + "; ".join("None" if v is None else f"(Some {val_term(ty, v)})" for v in view) + "]"


def kres_term(r, ty):
    if r is None or "panic" in r:
        return "KPanic"
    if "err" in r:
        return "KErr"
    return f"(KOk {view_term(ty, r['ok'])})"


def ftable_term(entries):
    return "(ftable [" + "; ".join(f"({a}, {b}, {r})" for (a, b), r in sorted(entries.items())) + "])"


def same_res(h, k):
    """helper result == arrow result, as the property demands (error text left free)"""
    if "panic" in h or "panic" in k:
        return False
    if "err" in h or "err" in k:
        return "err" in h and "err" in k
    return h["ok"] == k["ok"]


ENC = {"Flat": "Flat", "Dictionary": "Dictionary", "RunLengthEncoded": "RLE", "Constant": "Constant"}
CLASSES = {
    "encode": ["const-null", "enc-unsupported-type"],
    "filter": ["kernel-unsupported-type", "filter-null"],
    "cmp": ["kernel-unsupported-type", "cmp-null", "cmp-float-total-order"],
    "add": ["kernel-unsupported-type", "arith-null", "arith-overflow"],
    "mul": ["kernel-unsupported-type", "arith-null", "arith-overflow"],
    "sum": ["kernel-unsupported-type", "sum-all-null", "sum-overflow"],
    "count": [],
}


def case_term(c, o, thr):
    """one Coq term of type list Z: [impl==model; real arrow==arrow model; class predicates...; extras]"""
    op = c["op"]
    trle, tdict = thr_term(thr[0]), thr_term(thr[1])
    if "harness_error" in o or ("panic" in o and op != "encode" and "helper" not in o):
        return "[0; 0]"
    if op == "encode":
        a = c["arr"]
        if o.get("result") == "ok":
            impl = (f"(EOk {ENC.get(o['encoding'], 'Flat')} {view_term(a['ty'], o['decoded'])} "
                    f"{'false' if o['same_dtype'] else 'true'})")
        elif o.get("result") == "err":
            impl = "EErr"
        else:
            impl = "EPanic"
        an = ENC.get(o.get("analyze"), None)
        an_ok = f"b2z (encoding_eqb (analyze {trle} {tdict} a) {an})" if an else "0"
        return (f"(let a := {arr_term(a)} in let impl := {impl} in "
                f"[b2z (eres_eqb impl (encode_optimal {trle} {tdict} a)); b2z (enc_spec_ok a impl); "
                f"b2z (known_const_null a); b2z (known_enc_unsupported {trle} a); {an_ok}; "
                f"Z.of_nat (run_count a); Z.of_nat (count_distinct (map snd (a_slots a))); Z.of_nat (alen a); "
                f"b2z (list_eqb optv_eqb (lview a) {view_term(a['ty'], o['input_view'])})])")
    h, k = o["helper"], o["arrow"]
    if op == "filter":
        a = c["arr"]
        pred = "[" + "; ".join("true" if p else "false" for p in c["pred"]) + "]"
        return (f"(let a := {arr_term(a)} in let p := {pred} in "
                f"[b2z (kres_eqb {kres_term(h, a['ty'])} (filter_simd a p)); b2z (kres_eqb {kres_term(k, a['ty'])} (arrow_filter a p)); "
                f"b2z (known_filter_type a); b2z (known_filter_null a p)])")
    if op == "cmp":
        l, r = c["l"], c["r"]
        cop = {"eq": "OEq", "ne": "ONe", "lt": "OLt", "le": "OLe", "gt": "OGt", "ge": "OGe"}[c["cmp"]]
        return (f"(let l := {arr_term(l)} in let r := {arr_term(r)} in "
                f"[b2z (kres_eqb {kres_term(h, 'bool')} (compare_simd l r {cop})); b2z (kres_eqb {kres_term(k, 'bool')} (arrow_cmp l r {cop})); "
                f"b2z (known_cmp_type l); b2z (known_cmp_null l r); b2z (known_cmp_float_order l r)])")
    chk = "true" if o.get("ovf_checks") else "false"
    if op in ("add", "mul"):
        l, r = c["l"], c["r"]
        iop = "Z.add" if op == "add" else "Z.mul"
        tab = {}
        if l["ty"] == "f64":
            for x, y in zip(window(l)[0], window(r)[0]):
                tab[(x, y)] = fop(op, x, y)
        ft = ftable_term(tab)
        w = o["arrow_wrapping"]
        return (f"(let l := {arr_term(l)} in let r := {arr_term(r)} in let ft := {ft} in "
                f"[b2z (kres_eqb {kres_term(h, l['ty'])} (arith_simd {chk} {iop} ft l r)); "
                f"b2z (kres_eqb {kres_term(k, l['ty'])} (arrow_arith {iop} ft false l r) && kres_eqb {kres_term(w, l['ty'])} (arrow_arith {iop} ft true l r)); "
                f"b2z (known_arith_type l); b2z (known_arith_null l r); b2z (known_arith_overflow {iop} l r)])")
    if op == "sum":
        a = c["arr"]
        tab = {}
        if a["ty"] == "f64":
            acc = 0
            for v, ok in zip(*window(a)):
                if ok:
                    nxt = fop("add", acc, v)
                    tab[(acc, v)] = nxt
                    acc = nxt
        ft = ftable_term(tab)
        return (f"(let a := {arr_term(a)} in let ft := {ft} in "
                f"[b2z (kres_eqb {kres_term(h, a['ty'])} (sum_simd {chk} ft a)); b2z (kres_eqb {kres_term(k, a['ty'])} (arrow_sum ft a)); "
                f"b2z (known_sum_type a); b2z (known_sum_all_null a); b2z (known_sum_overflow a)])")
    a = c["arr"]
    return (f"(let a := {arr_term(a)} in "
            f"[b2z (kres_eqb {kres_term(h, 'i64')} (count_simd a)); b2z (kres_eqb {kres_term(k, 'i64')} (arrow_count a))])")


def float_threshold_agrees(x, n, thr_str, exact_gt):
    """the Rust expression `1.0 - (x as f64 / n as f64) > thr` evaluated in binary64 vs the exact comparison"""
    if n == 0:
        return True
    return ((1.0 - (float(x) / float(n))) > float(thr_str)) == exact_gt


def evaluate(ctx, cases, thr):
    outs = vlib.run_harness("c37", cases)
    vals = vlib.coq_eval_list(REQ, PRELUDE, [case_term(c, o, thr) for c, o in zip(cases, outs)], "c37", shard=60)
    eq, ok, notes = [], [], []
    for c, o, v in zip(cases, outs, vals):
        op = c["op"]
        c.pop("_class", None)
        if len(v) <= 2 and op != "count":
            eq.append(False); ok.append(False); notes.append("harness failure"); continue
        if op == "encode":
            e = bool(v[0]) and bool(v[4]) and bool(v[8])
            good = bool(v[1])
            if o.get("result") == "ok":
                # arrow's own equality must agree with the logical comparison unless the result is Dictionary-typed
                exp_arrow_eq = good and o["same_dtype"]
                e = e and (o["arrow_equal"] == exp_arrow_eq) and o["enc_len"] == v[7]
            rc, nd, n = v[5], v[6], v[7]
            fl = (float_threshold_agrees(rc, n, thr[2], thr[0] * n < (n - rc) if n else False)
                  and float_threshold_agrees(nd, n, thr[3], thr[1] * n < (n - nd) if n else False))
            e = e and fl
            cls = [nm for nm, b in zip(CLASSES[op], v[2:4]) if b]
        else:
            e = bool(v[0]) and bool(v[1])
            good = same_res(o["helper"], o["arrow"])
            cls = [nm for nm, b in zip(CLASSES[op], v[2:]) if b]
        if cls:
            c["_class"] = cls[0]
        eq.append(e); ok.append(good); notes.append(None)
    return outs, eq, ok


def classify(c):
    return c.get("_class")


def fixed_cases():
    A = lambda ty, vals, valid=None, **kw: dict({"ty": ty, "vals": vals, "valid": valid or [True] * len(vals), "off": 0, "len": len(vals)}, **kw)
    out = []
    # threshold boundaries: runs+1 = 3 of 10 (ratio exactly 0.7 -> not RLE), 2 runs of 10 -> RLE on 7 valid ...
    out.append({"op": "encode", "arr": A("i64", [1] * 5 + [2] * 5)})
    out.append({"op": "encode", "arr": A("i64", [1] * 4 + [2] * 3 + [3] * 3)})
    out.append({"op": "encode", "arr": A("i64", [1] * 8 + [2] * 6 + [3] * 6)})
    out.append({"op": "encode", "arr": A("utf8", ["a", "b", "a", "b"])})                  # dict ratio exactly 0.5
    out.append({"op": "encode", "arr": A("utf8", ["a", "b", "a", "a", "b", "a"])})
    out.append({"op": "encode", "arr": A("utf8", ["NULL", "", "NULL"], [True, False, True])})
    out.append({"op": "encode", "arr": A("f64", [CNAN, 0x7FF8000000000001] * 5)})
    out.append({"op": "encode", "arr": A("f64", [0, 2**63] * 5)})
    out.append({"op": "encode", "arr": A("i64", [7, 7, 7], [True, False, True])})
    out.append({"op": "encode", "arr": A("i64", [7, 8, 7], [True, False, True])})
    out.append({"op": "encode", "arr": A("utf8", ["", ""], [False, False])})
    out.append({"op": "encode", "arr": A("i32", [5])})
    out.append({"op": "encode", "arr": A("bool", [True])})
    out.append({"op": "encode", "arr": A("i32", [1] * 10)})
    out.append({"op": "encode", "arr": A("i32", [1] * 10, [False] * 10)})
    out.append({"op": "encode", "arr": A("bool", [True, False] * 6)})
    out.append({"op": "filter", "arr": A("i64", [1, 0, 3], [True, False, True]), "pred": [True, True, False]})
    out.append({"op": "cmp", "cmp": "eq", "l": A("f64", [CNAN, 2**63]), "r": A("f64", [CNAN, 0])})
    out.append({"op": "cmp", "cmp": "lt", "l": A("f64", [2**63, 0xFFF8000000000000]), "r": A("f64", [0, f2b(float('-inf'))])})
    out.append({"op": "add", "l": A("i64", [I64MAX, 1]), "r": A("i64", [1, 1])})
    out.append({"op": "mul", "l": A("i64", [2**32]), "r": A("i64", [2**32])})
    out.append({"op": "add", "l": A("i64", [1, 5], [True, False]), "r": A("i64", [2, 2])})
    out.append({"op": "sum", "arr": A("i64", [9, 9], [False, False])})
    out.append({"op": "sum", "arr": A("f64", [])})
    out.append({"op": "sum", "arr": A("i64", [I64MAX, 1])})
    out.append({"op": "sum", "arr": A("i64", [I64MAX, 1, -5], [True, False, True])})
    return out


def run(ctx):
    proved = ctx.prove()
    thr = read_thresholds()
    if thr is None:
        ctx.violation({"kind": "correspondence-cannot-be-built: rle/dict thresholds not found in src/arrow_ffi/array.rs"},
                      found_input=False, tag="thresholds")
        return ctx.finish(rule="threshold extraction failed")
    chk = vlib.coq_eval_list(REQ, PRELUDE, [
        f"[b2z (fst default_rle_thr * {thr[0].denominator} =? snd default_rle_thr * {thr[0].numerator}); "
        f"b2z (fst default_dict_thr * {thr[1].denominator} =? snd default_dict_thr * {thr[1].numerator})]"], "c37thr")[0]
    ctx.cov["thresholds_from_source"] = {"rle_ratio_gt": thr[2], "dict_ratio_gt": thr[3],
                                         "equal_to_model_defaults": bool(chk[0] and chk[1])}
    n = ctx.n(500, 12000)
    cases = fixed_cases() + [gen_case(ctx.rng, ctx.quick) for _ in range(n)]
    if not proved:
        cases += [gen_case(ctx.rng, ctx.quick) for _ in range(1500)]
    outs, eq, ok = evaluate(ctx, cases, thr)
    ctx.cov["evaluations"] = len(cases)
    seen, byop, bycls, sliced, dict_typed = set(), {}, {}, 0, 0
    for c, o in zip(cases, outs):
        arrs = [c[k] for k in ("arr", "l", "r") if k in c]
        byop[c["op"]] = byop.get(c["op"], 0) + 1
        if c.get("_class"):
            bycls[c["_class"]] = bycls.get(c["_class"], 0) + 1
        if any(a["off"] > 0 or "slice2" in a for a in arrs):
            sliced += 1
        if o.get("decoded_dtype", "").startswith("Dictionary"):
            dict_typed += 1
        if all(len(window(a)[0]) >= 2 for a in arrs):
            seen.add(repr((c["op"], c.get("cmp"), c.get("pred"), [(a["ty"], window(a)) for a in arrs])))
    ctx.cov["distinct_nontrivial"] = len(seen)
    ctx.cov["input_distribution"] = {"by_op": byop, "by_known_class": bycls, "sliced_or_offset": sliced,
                                     "decoded_as_dictionary_typed_array": dict_typed,
                                     "encodings_chosen": {e: sum(1 for o in outs if o.get("analyze") == e)
                                                          for e in ("Flat", "Constant", "RunLengthEncoded", "Dictionary")}}
    for c, o in list(zip(cases, outs))[:3]:
        ctx.sample({"input": c, "impl_output": o})
    ctx.judge(cases, eq, ok, classify=classify, impl_outs=outs)
    if not proved and not ctx.violations:
        ctx.proof_broken_violation(f"{len(cases)} generated cases, none violates the property outside the known classes")
    return ctx.finish(
        rule="Int32/Int64/Float64/Utf8/Boolean arrays of length 0..33 (thorough: ..150) built longer and sliced (offset 0/1/3/8, "
             "optional slice of a slice), NULL patterns none/some/runs/all with controlled physical values under NULL, "
             "value styles constant/runs/random/edge (i64 extremes, NaNs, +-0, inf); ops: encode+decode, filter, compare (6 ops), "
             "add, multiply, sum, count; each helper is compared with its model, the real Arrow kernel with the list-level "
             "Arrow definition, and helper with real Arrow (the property); non-trivial = every operand has >=2 slots, "
             "distinct by (op, operands)",
        assumptions=[
            "f64 evaluation of `1.0 - (x / len) > 0.7 | 0.5` equals the exact rational comparison (re-checked per case in binary64 by the check)",
            "IEEE binary64 + and * on bit patterns are supplied to the model as a finite table computed by CPython floats; NaN results are compared up to payload",
            "arrow::compute::sum on Float64 is compared only on inputs whose sum is exact in every order (arrow adds in its own lane order)",
            "decoded arrays are compared logically (value + validity, floats bitwise); a Dictionary-typed decode of a Utf8 array counts as equal when its logical values are equal",
            "binary helpers are exercised with equal-length operands (compare_simd also with a length mismatch)",
            "the harness is built with overflow checks (dev profile): `+`/`*` overflow panics; the release build wraps (both modelled, flag probed at run time)"])


def replay(ctx, obj):
    c = obj.get("case") or obj.get("first_differing_case")
    thr = read_thresholds()
    outs, eq, ok = evaluate(ctx, [c], thr)
    print("impl_output:", outs[0]); print("impl_equals_model:", eq[0], "property_holds:", ok[0], "class:", c.get("_class"))
    return 0 if ok[0] and eq[0] else 1
