"""C19 — Rewritten files are never served from a stale cache.
Theorems: coq/theories/Props/C19.v.  Correspondence: histories of write / rewrite (controlled mtime incl. preserved
mtime, same second, same length, rename-into-place) / query on one real Parquet path, run through the real engine
in long-lived processes with QE_IPC_CACHE in {0, unset, 1} (plus queries from fresh child processes in another mode),
compared with C19.Model.run (allowed answers) and with the truth (current content)."""
import json
import vlib
from vlib import zlit, blit

REQ = "From QV Require Import Base.Util C19.Model."
M = 10**6
T0 = 1700000000
MODES = [("0", "Off"), (None, "Auto"), ("1", "Build")]
PRELUDE = """
Inductive iobs := IWrite | IAns (x : ans) | IDict (c a : bool).
Definition j1 (o : obs) (i : iobs) : list bool :=
  match o, i with
  | OWrite, IWrite => [true; true]
  | OAns _ _, IAns x => [ans_allowed x o; ans_ok x o]
  | ODict b t u, IDict c a => [u || (Bool.eqb b c && Bool.eqb t a); Bool.eqb c a]
  | _, _ => [false; false]
  end.
Fixpoint jall (os : list obs) (xs : list iobs) : list (list bool) :=
  match os, xs with o :: r, i :: s => j1 o i :: jall r s | _, _ => [] end.
Definition judge (v0 : version) (ops : list op) (xs : list iobs) :=
  (jall (run code_fkey code_skey (init v0) ops) xs, classes code_fkey code_skey (init v0) ops).
"""
CLASS = {1: "footer-same-mtime", 2: "sidecar-same-stamp", 3: "dict-cols-stale"}


# ---------------------------------------------------------------- generation
def gen_case(rng, mode_env):
    big = rng.random() < 0.35
    nds = rng.randint(2, 4)
    datasets = []
    strmode = rng.choice([None, None, "mixed"])
    for i in range(nds):
        if big:
            n, rg = rng.choice([(20000, 10000), (30000, 10000), (15000, 5000)])
        else:
            n, rg = rng.choice([(3, 100), (4, 2), (6, 2), (6, 3), (8, 3)])
        s = None if strmode is None else rng.choice(["dict", "plain"])
        datasets.append({"content": i + 1, "rows": n, "rg": rg, "strcol": s})
    # same (rows, rg) for several datasets is what makes "same length" rewrites
    if rng.random() < 0.7:
        for d in datasets[1:]:
            if rng.random() < 0.6:
                d["rows"], d["rg"] = datasets[0]["rows"], datasets[0]["rg"]
                if strmode is not None and rng.random() < 0.5:
                    d["strcol"] = datasets[0]["strcol"]

    def mtime():
        return [T0 + rng.choice([0, 0, 0, 1, 100]), rng.choice([0, 0, 0, 500000000, 7])]

    def q():
        return rng.randint(0, nds + 1)

    def query_op():
        r = rng.random()
        if r < 0.75:
            return {"op": "query", "q": q()}
        if r < 0.9:
            return {"op": "child", "mode": rng.choice(["0", None, "1", "1"]), "q": q()}
        return {"op": "dict_cols"}

    ops = [dict(rng.choice(datasets), op="write", mtime=mtime())]
    for _ in range(rng.randint(1, 2)):
        ops.append(query_op())
    for _ in range(rng.randint(1, 3)):
        w = dict(rng.choice(datasets), op="write", mtime=mtime() if rng.random() < 0.9 else None)
        if rng.random() < 0.3:
            w["rename"] = True
        ops.append(w)
        for _ in range(rng.randint(1, 2)):
            ops.append(query_op())
    return {"mode": mode_env, "ops": ops, "big": big}


def witness_cases():
    d1 = {"content": 1, "rows": 20000, "rg": 10000, "strcol": None}
    d2 = {"content": 2, "rows": 20000, "rg": 10000, "strcol": None}
    d3 = {"content": 2, "rows": 30000, "rg": 10000, "strcol": None}
    s1 = {"content": 1, "rows": 6, "rg": 3, "strcol": "dict"}
    s2 = {"content": 2, "rows": 8, "rg": 3, "strcol": "plain"}
    w = lambda d, t: dict(d, op="write", mtime=t)
    return [
        # footer cache, preserved mtime, same layout: statistics of the old content decide the filter
        {"mode": "0", "big": True, "ops": [w(d1, [T0, 0]), {"op": "query", "q": 1}, w(d2, [T0, 0]), {"op": "query", "q": 2}]},
        # footer cache, preserved mtime, other layout
        {"mode": "0", "big": True, "ops": [w(d1, [T0, 0]), {"op": "query", "q": 0}, w(d3, [T0, 0]), {"op": "query", "q": 0}]},
        # sidecar, same second, same length
        {"mode": "1", "big": True, "ops": [w(d1, [T0, 0]), {"op": "query", "q": 0}, w(d2, [T0, 500000000]), {"op": "query", "q": 0}]},
        {"mode": None, "big": True, "ops": [w(d1, [T0, 0]), {"op": "child", "mode": "1", "q": 0}, w(d2, [T0, 500000000]), {"op": "query", "q": 0}]},
        # per-directory dictionary-column cache
        {"mode": "1", "big": False, "ops": [w(s1, [T0, 0]), {"op": "query", "q": 0}, {"op": "dict_cols"}, w(s2, [T0 + 100, 0]),
                                            {"op": "query", "q": 0}, {"op": "dict_cols"}]},
    ]


# ---------------------------------------------------------------- harness / model rendering
def sql_of(q):
    return f"SELECT count(*), min(a), max(a) FROM t WHERE a >= {q * M}"


def harness_ops(c):
    out = []
    for o in c["ops"]:
        if o["op"] == "write":
            out.append({k: v for k, v in o.items()})
        elif o["op"] == "query":
            out.append({"op": "query", "sql": sql_of(o["q"])})
        elif o["op"] == "child":
            env = {} if o["mode"] is None else {"QE_IPC_CACHE": o["mode"]}
            out.append({"op": "child", "env": env, "ops": [{"op": "query", "sql": sql_of(o["q"])}]})
        else:
            out.append({"op": "dict_cols"})
    return {"ops": out}


def classify_rows(c, r):
    """map a query result to All k / NoRows / Undef (anything else)"""
    rows = r.get("rows")
    if not isinstance(rows, list) or len(rows) != 1 or len(rows[0]) != 3:
        return "Undef"
    cnt, mn, mx = rows[0]
    if cnt == 0 and mn is None and mx is None:
        return "NoRows"
    for o in c["ops"]:
        if o["op"] == "write" and cnt == o["rows"] and mn == o["content"] * M and mx == o["content"] * M + o["rows"] - 1:
            return f"(All {o['content']})"
    return "Undef"


def mode_name(env):
    return {"0": "Off", None: "Auto", "1": "Build"}[env]


def case_term(c, o):
    res = o.get("results")
    if not res or len(res) != len(c["ops"]):
        return None
    layouts = {}
    vs, ops, impl = [], [], []
    for op, r in zip(c["ops"], res):
        if op["op"] == "write":
            if "len" not in r:
                return None
            lay = layouts.setdefault((op["rows"], op["rg"], op["strcol"]), len(layouts))
            v = (f"(mkV {op['content']} {lay} {r['len']} {r['mtime'][0]} {r['mtime'][1]} {blit(op['strcol'] == 'dict')})")
            vs.append(v)
            ops.append(f"Write {v}")
            impl.append("IWrite")
        elif op["op"] == "query":
            ops.append(f"Query {mode_name(c['mode'])} {op['q']}")
            impl.append(f"IAns {classify_rows(c, r)}")
        elif op["op"] == "child":
            rr = (r.get("results") or [{}])[0]
            ops.append(f"Child {mode_name(op['mode'])} {op['q']}")
            impl.append(f"IAns {classify_rows(c, rr)}")
        else:
            ops.append("DictCols")
            impl.append(f"IDict {blit('s' in r.get('cached', []))} {blit('s' in r.get('actual', []))}")
    return f"(judge {vs[0]} [{'; '.join(ops[1:])}] [{'; '.join(impl[1:])}])"


def evaluate(ctx, cases):
    import os
    from concurrent.futures import ThreadPoolExecutor
    outs = [None] * len(cases)
    saved = os.environ.pop("QE_IPC_CACHE", None)     # "unset" must really be unset for the Auto dispatcher
    vlib.build_harness("c19")

    def one_mode(env):
        # one engine process per mode (3 jobs in parallel).  A history must start in a process whose BUILD_LOCK is
        # usable: in Build mode the harness probes that after every history and retires (exits) when a history has
        # poisoned the lock; the histories it did not reach are submitted to a new process.
        pending = [i for i, c in enumerate(cases) if c["mode"] == env]
        e = {"QE_IPC_CACHE": env} if env is not None else {}
        done = []
        while pending:
            rs = vlib.run_harness("c19", [harness_ops(cases[i]) for i in pending], env=e, timeout=6000)
            n = next((k for k, r in enumerate(rs) if "no output" in str(r.get("harness_error", ""))), len(rs))
            n = max(n, 1)      # no progress at all: keep the error as this history's output
            done += list(zip(pending[:n], rs[:n]))
            pending = pending[n:]
        return done
    try:
        with ThreadPoolExecutor(max_workers=3) as ex:
            for part in ex.map(one_mode, [env for env, _ in MODES]):
                for i, r in part:
                    outs[i] = r
    finally:
        if saved is not None:
            os.environ["QE_IPC_CACHE"] = saved
    terms, good = [], []
    for c, o in zip(cases, outs):
        t = case_term(c, o)
        good.append(t is not None)
        terms.append(t or "(judge (mkV 0 0 0 0 0 false) [] [])")
    vals = vlib.coq_eval_list(REQ, PRELUDE, terms, "c19", shard=80)
    eq, ok = [], []
    for c, o, g, v in zip(cases, outs, good, vals):
        js, cls = v
        cls = cls[:]  # classes of ops after the first write
        c["_classes"] = [CLASS.get(k) for k in cls]
        c["_judged"] = js
        if not g or len(js) != len(c["ops"]) - 1:
            eq.append(False); ok.append(False); c["_class"] = None
            continue
        eq.append(all(j[0] for j in js))
        ok.append(all(j[1] for j in js))
        # each step's class is decided by the model state it starts from (Coq `classes`), never by the failure.
        # A history is only excusable if EVERY stale step is itself in a class; it is then filed under the class of
        # its first classed step.
        unexcused = any((not j[1]) and not k for j, k in zip(js, cls))
        c["_class"] = None if unexcused else next((CLASS[k] for k in cls if k), None)
    return outs, eq, ok


def run(ctx):
    proved = ctx.prove()
    per_mode = ctx.n(40, 1000)
    cases = witness_cases()
    for env, _ in MODES:
        cases += [gen_case(ctx.rng, env) for _ in range(per_mode)]
    if not proved:
        for env, _ in MODES:
            cases += [gen_case(ctx.rng, env) for _ in range(200)]
    outs, eq, ok = evaluate(ctx, cases)

    ctx.cov["evaluations"] = sum(1 for c in cases for o in c["ops"] if o["op"] != "write")
    seen = set()
    for c in cases:
        if sum(1 for o in c["ops"] if o["op"] == "write") >= 2:
            seen.add(json.dumps([c["mode"], [{k: v for k, v in o.items()} for o in c["ops"]]], sort_keys=True))
    ctx.cov["distinct_nontrivial"] = len(seen)

    def collide(c, key):
        ws = [o for o in c["ops"] if o["op"] == "write" and o["mtime"]]
        return any(key(a) == key(b) and a["content"] != b["content"] for i, a in enumerate(ws) for b in ws[i + 1:])
    ctx.cov["input_distribution"] = {
        "histories": len(cases), "per_mode": {n: sum(1 for c in cases if c["mode"] == e) for e, n in MODES},
        "big_table_histories(>=20000 rows, pruning paths)": sum(1 for c in cases if c["big"]),
        "histories_with_preserved_mtime_rewrite": sum(1 for c in cases if collide(c, lambda o: tuple(o["mtime"]))),
        "histories_with_same_second_same_layout_rewrite": sum(1 for c in cases if collide(c, lambda o: (o["mtime"][0], o["rows"], o["rg"], o["strcol"]))),
        "histories_with_child_process_query": sum(1 for c in cases if any(o["op"] == "child" for o in c["ops"])),
        "histories_with_rename_into_place": sum(1 for c in cases if any(o.get("rename") for o in c["ops"])),
        "histories_in_class": {k: sum(1 for c in cases if c.get("_class") == k) for k in CLASS.values()},
        "histories_where_impl_served_stale_or_failed": sum(1 for x in ok if not x),
    }
    for c, o in list(zip(cases, outs))[5:8]:
        ctx.sample({"history": {k: v for k, v in c.items() if not k.startswith("_")}, "impl": o})
    ctx.judge(cases, eq, ok, classify=lambda c: c.get("_class"), impl_outs=outs)
    if not proved and not ctx.violations:
        ctx.proof_broken_violation(f"{len(cases)} histories, none violates freshness outside the known classes")
    return ctx.finish(
        rule="histories: 2-4 writes of 2-4 datasets (small 3-8 rows / big 20-30k rows, several sharing a layout => equal length) with "
             "mtimes drawn from {T0,T0+1,T0+100} x {0,5e8,7 ns} or now, in place or renamed into place; 1-2 observations after each write: "
             "`SELECT count(*),min(a),max(a) FROM t WHERE a >= q*M` in the long-lived process (mode 0/unset/1), the same from a fresh child "
             "process in any mode, or sidecar_dict_cols; non-trivial = >=2 writes, distinct by (mode, ops); evaluations = observations",
        assumptions=["the file length is a function of (row count, row-group size, encoding) for the harness writer (real lengths are fed to the model)",
                     "the filesystem stores nanosecond mtimes as set (the harness reads them back and feeds the model)",
                     "a stale footer of ANOTHER layout makes the read undefined in the model (any outcome accepted as corresponding, never as correct)",
                     "with a stale footer of the same layout the model allows both the data-evaluated and the statistics-decided answer (operator choice is free)"])


def replay(ctx, obj):
    c = obj.get("case") or obj.get("first_differing_case")
    c = {k: v for k, v in c.items() if not k.startswith("_")}
    outs, eq, ok = evaluate(ctx, [c])
    print("impl_output:", json.dumps(outs[0])[:3000])
    print("per observation [explained_by_model, fresh]:", c["_judged"], "classes:", c["_classes"])
    print("impl_equals_model:", eq[0], "spec_ok:", ok[0], "class:", c["_class"])
    return 0 if ok[0] and eq[0] else 1
