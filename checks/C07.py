"""C07 — Answers do not depend on parallelism, batching or scheduling. Theorems: coq/theories/Props/C07.v.
Correspondence:
 (1) generated statements (filters, projections, inner/outer/cross/self joins incl. i64 = i32 keys, GROUP BY with COUNT(*)/COUNT/
     SUM/AVG/MIN/MAX/COUNT(DISTINCT), global aggregates, DISTINCT, UNION [ALL], ORDER BY + LIMIT/OFFSET) over the SAME rows under a
     ladder  batch split x RAYON_NUM_THREADS x repetition  (a harness subprocess per setting):
       b1        one batch                      bmany   1-3 row batches (100-row batches for the 1300-row tables)
       buneven   uneven pieces incl. empty batches
     threads 1, 2, 5, 16; tables of >= 1000 rows in several batches make MemoryTableExec declare min(threads, batches) partitions,
     so filters/projections/probes run partition-wise and every pipeline breaker gathers concurrently;
     every configuration is compared with the Gallina engine model and the SQL reference (evaluated once per statement);
 (2) the partition contract: harness c07 plans each statement, walks the operator tree and executes EVERY declared partition of
     EVERY operator (fresh plan per operator) plus two partitions past the end: a declared partition must open and drain without
     a partition-range error, an undeclared one must be refused (not answered with an empty stream); the root's partitions must
     add up to what ExecutionContext::sql returns;
 (3) the guard table: every `impl PhysicalOperator` in /repo/src is scanned for `check_partition(self, partition)?` as the first
     statement of `execute` (the premise of C07_partition_contract)."""
import os, re, glob
import vlib, confcheck, confgen, sqlq

SMALL_KINDS = confgen.KINDS
# join-right / join-full: the probe side of a RIGHT/FULL join is not the one `build_right` alone suggests, and the two inputs declare
# different partition counts (1300 rows in many batches vs 60 rows): added after seeded change seeded/C07
BIG_KINDS = ["filter", "project", "join", "join-outer", "join-right", "join-right", "join-full", "agg", "agg", "agg-intkey", "agg-global", "agg-join", "distinct", "union",
             "union-mixed", "sort", "topk", "sort-offset", "sort-agg"]

def guard_table():
    """static decision table: operator -> does execute() start with check_partition? how is output_partitions declared?"""
    rows = []
    for f in sorted(glob.glob(vlib.REPO + "/src/**/*.rs", recursive=True)):
        src = open(f, errors="replace").read()
        for m in re.finditer(r"impl\s+PhysicalOperator\s+for\s+(\w+)\s*\{", src):
            name = m.group(1)
            body = src[m.end():]
            nxt = re.search(r"\n}\n", body)
            body = body[:nxt.start()] if nxt else body
            ex = re.search(r"async fn execute\(&self, (_?partition): usize\)[^{]*\{", body)
            first = ""
            if ex:
                rest = body[ex.end():]
                # first statement: skip comments / blank lines
                lines = [l.strip() for l in rest.split("\n")]
                lines = [l for l in lines if l and not l.startswith("//")]
                first = lines[0] if lines else ""
            op = re.search(r"fn output_partitions\(&self\) -> usize \{(.*?)\n    \}", body, re.S)
            decl = "1 (trait default)"
            if op:
                t = re.sub(r"//[^\n]*", "", op.group(1))
                t = " ".join(t.split())
                decl = t[:160]
            rows.append({"operator": name, "file": os.path.relpath(f, vlib.REPO), "guard_first": "check_partition(self, partition)?" in first,
                         "first_statement": first[:80], "output_partitions": decl})
    return rows

def contract_problems(o):
    """violations of the contract in one c07 result; [] if fine"""
    bad = []
    for op in o.get("ops", []):
        if "replan_err" in op:
            continue
        for p in op.get("parts", []):
            msg = (p.get("msg") or "") + (p.get("drain_err") or "")
            if "out of range (output_partitions=" in msg:
                bad.append({"operator": op["name"], "path": op["path"], "declared": op["declared"], "partition": p["p"],
                            "problem": "a declared partition hit a partition-range error", "msg": msg[:200]})
            if p.get("open") == "panic":
                bad.append({"operator": op["name"], "path": op["path"], "partition": p["p"], "problem": "panic", "msg": msg[:200]})
        for p in op.get("beyond", []):
            if p.get("open") != "err" or "out of range" not in (p.get("msg") or ""):
                bad.append({"operator": op["name"], "path": op["path"], "declared": op["declared"], "partition": p["p"],
                            "problem": "an undeclared partition was not refused", "got": {k: p.get(k) for k in ("open", "rows", "msg")}})
    rr, sr = o.get("root_rows"), o.get("sql_rows")
    if isinstance(rr, int) and isinstance(sr, int) and rr != sr:
        bad.append({"problem": "the root's declared partitions do not add up to ExecutionContext::sql", "root_rows": rr, "sql_rows": sr})
    return bad

def run(ctx):
    proved = ctx.prove()
    rng = ctx.rng
    sizes = ctx.n([0, 1, 3, 8, 20, 40], [0, 1, 2, 3, 5, 8, 12, 20, 40, 60] * 4)
    bases = []
    for n in sizes:
        ta, tb = confgen.gen_tables(rng, n, rng.choice([0, 2, 6, 15]) if n else rng.choice([0, 3]), null_p=rng.choice([0.0, 0.2, 0.4]))
        bases.append({"tables": [ta, tb], "queries": confgen.gen_queries(rng, ta, tb, SMALL_KINDS)})
    for _ in range(ctx.n(1, 4)):
        ta, tb = confgen.gen_tables(rng, 1300, 60, null_p=0.15, kr=60, wide_str=True)
        bases.append({"tables": [ta, tb], "queries": confgen.gen_queries(rng, ta, tb, BIG_KINDS)})
    many, uneven = {}, {}
    def bmany(bi, t):
        n = len(t["rows"])
        if (bi, t["name"]) not in many:
            many[(bi, t["name"])] = confgen.split(rng, n, 1, 3) if n <= 100 else confgen.split(rng, n, 60, 140)
        t["batch_sizes"] = many[(bi, t["name"])] or None
        return t
    def buneven(bi, t):
        n = len(t["rows"])
        if (bi, t["name"]) not in uneven:
            s = confgen.split(rng, n, 1, max(1, n // 2)) if n else []
            for _ in range(rng.randint(1, 2)):
                s.insert(rng.randint(0, len(s)), 0)                    # an empty batch
            if n > 100:
                s = confgen.split(rng, n // 2, 1, 5)[:40]
                s = s + confgen.split(rng, n - sum(s), 200, 400)
            uneven[(bi, t["name"])] = s
        t["batch_sizes"] = uneven[(bi, t["name"])] or None
        return t
    def b1(bi, t):
        t["batch_sizes"] = None
        return t
    L = {"b1": b1, "bmany": bmany, "buneven": buneven}
    if ctx.quick:
        grid = [("b1", 1, 0), ("bmany", 1, 0), ("bmany", 2, 0), ("bmany", 5, 0), ("bmany", 5, 1), ("bmany", 5, 2), ("bmany", 16, 0),
                ("bmany", 16, 1), ("bmany", 16, 2), ("buneven", 5, 0), ("buneven", 16, 0), ("b1", 16, 0)]
    else:
        grid = [(l, t, r) for l in ("b1", "bmany", "buneven") for t in (1, 2, 5, 16) for r in range(5)]
    configs = [{"name": f"{l}-t{t}-r{r}", "layout": L[l], "env": {"RAYON_NUM_THREADS": str(t)}} for l, t, r in grid]
    results, refs, timing = confcheck.run_ladder(ctx, "c07", bases, configs)
    ctx.cov["timing_s"] = timing
    ran, errs, by_stmt = confcheck.judge(ctx, results, configs[0]["name"])

    # ---- partition contract ----
    sqls = confcheck.sqls_of(bases)
    ccfg = {"name": "contract", "layout": bmany, "env": {"RAYON_NUM_THREADS": "5"}, "module": "c07"}
    couts = confcheck.run_config(bases, sqls, ccfg)
    n_ops = n_parts = n_beyond = n_stmt = 0
    op_names, declared_hist, other_errs = {}, {}, {}
    problems = []
    for bi, o in enumerate(couts):
        for qi, res in enumerate(o.get("results", [])):
            if "ops" not in res:
                continue
            n_stmt += 1
            for op in res["ops"]:
                if "declared" not in op:
                    continue
                n_ops += 1
                op_names[op["name"]] = op_names.get(op["name"], 0) + 1
                declared_hist[str(op["declared"])] = declared_hist.get(str(op["declared"]), 0) + 1
                n_parts += len(op["parts"]); n_beyond += len(op["beyond"])
                for p in op["parts"]:
                    m = (p.get("msg") or "") + (p.get("drain_err") or "")
                    if m and "out of range" not in m:
                        k = op["name"] + ": " + m[:70]
                        other_errs[k] = other_errs.get(k, 0) + 1
            for b in contract_problems(res):
                problems.append(dict(b, sql=sqls[bi][qi], base=bi))
    for b in problems[:3]:
        ctx.violation({"kind": "partition contract broken", "case": {"sql": b["sql"], "base": b["base"],
                       "rows_ta": bases[b["base"]]["tables"][0]["rows"][:10]}, "impl_output": b}, found_input=True)
    guards = guard_table()
    unguarded = [g for g in guards if not g["guard_first"] and g["operator"] != "GpuAggExec"]
    if unguarded:
        ctx.violation({"kind": "an operator's execute() does not start with check_partition", "operators": unguarded}, found_input=False,
                      tag="guard")
    if not guards:
        ctx.violation({"kind": "guard table: no PhysicalOperator implementation found in /repo/src"}, found_input=False, tag="guard")
    ctx.cov["partition_contract"] = {
        "statements_planned": n_stmt, "operators_visited": n_ops, "declared_partitions_executed": n_parts,
        "undeclared_partitions_tried": n_beyond, "problems": len(problems), "operators": op_names,
        "declared_partition_counts": declared_hist,
        "errors_of_another_kind_when_an_operator_is_run_on_its_own (not judged)": other_errs,
        "guard_table": guards,
        "guard_exception": "GpuAggExec delegates to its inner operator (which has the guard) when no device is present; with a device "
                           "it answers partitions > 0 with an empty stream without a guard of its own (not reachable here)"}
    ctx.cov["evaluations"] = len(results) + n_parts + n_beyond

    names = [c["name"] for c in configs]
    kinds = {}
    for r in results:
        kinds[r["kind"]] = kinds.get(r["kind"], 0) + 1
    all_cfg = list(by_stmt.values())
    ctx.cov["input_distribution"] = {
        "by_configuration": confcheck.per_config_table(results, names), "by_statement_kind": kinds, "base_tables": len(bases),
        "rows_per_table": sorted({len(b["tables"][0]["rows"]) for b in bases}),
        "tables_with_several_partitions (>= 1000 rows in several batches)": sum(1 for b in bases if len(b["tables"][0]["rows"]) >= 1000),
        "statements_run_in_every_configuration": sum(1 for v in all_cfg if all(x["status"] == "ran" for x in v)),
        "statements_equal_reference_in_every_configuration": sum(1 for v in all_cfg if all(x["status"] == "ran" and x["ok"] for x in v))}
    ctx.cov["not_covered"] = ["Parquet layouts under thread counts (C04 runs the layouts; its recorded Parquet-only classes would repeat here)",
                              "real interleavings are sampled by repetition, not enumerated",
                              "double sums are order-dependent in IEEE arithmetic: generated doubles are exact dyadic values"]
    ctx.cov["distinct_nontrivial"] = len({(r["cfg"], r["base"], r["sql"]) for r in ran if r["n_sql_rows"] > 0})
    for r in results[:2]:
        ctx.sample({"sql": r["sql"], "cfg": r["cfg"], "rows_ta": bases[r["base"]]["tables"][0]["rows"][:6]})
    if problems:
        ctx.sample({"contract_problem": problems[0]})
    if not proved and not ctx.violations:
        ctx.proof_broken_violation(f"{len(results)} statement x configuration evaluations")
    return ctx.finish(
        rule="tables ta(i64?, i32?, f64?, str?, date?, i64) of 0-60 rows and of 1300 rows (several partitions), tb(i32?, str?, i64); "
             "21 statement shapes (lib/confgen.py KINDS) per small table pair, 16 per large one; every statement x (batch split, "
             "thread count, repetition) configurations; partition contract over every operator of every plan; non-trivial = "
             "reference result non-empty, distinct by (configuration, table, statement)",
        assumptions=["doubles are exact dyadic values (sums exact in binary64; AVG compared to 1e-12 relative)",
                     "thread interleavings are sampled (repetitions), the algebraic statement is C07_any_merge_tree / "
                     "C07_bag_arrival_order",
                     "RAYON_NUM_THREADS sizes the rayon pool that MemoryTableExec::output_partitions and the parallel kernels read; "
                     "the tokio runtime of the harness has 4 workers"])

def replay(ctx, obj):
    print("failing case:", obj.get("case")); return run(ctx)
