"""Subquery predicates (coq/theories/Sql/Sub.v) and WITH-nested queries (coq/theories/C28/Model.v):
python tuples -> SQL text / Coq terms, and the runners that put the real engine (optimised plan and the
bound unoptimised plan, harness `sql` with "noopt") next to the Gallina engine models and reference.

Tables: {"name", "types", "rows", "batch_sizes"}; columns of a table whose name starts with "t" are c0.., all
others d0.. (outer and inner relations never share a column name, so an unqualified or suffix-matched name
cannot be captured by the wrong scope).
Subquery bodies `sub`: ("table", idx, name, w) | ("filter", ("table", ...), pred)
  spred: ("exists", neg, sub, corr) | ("in", neg, e, sub, vcol, corr) | ("scalar", agg, sub, vcol, corr)
       | ("cmp", op, e, agg, sub, vcol, corr, flip)          agg = None | (fn, arg-expr over the inner row)
  sbool: ("atom", spred) | ("expr", e) | ("and", a, b) | ("or", a, b) | ("not", a)
  squery: ("sselect", outer-query(sqlq tuple), sbool, [sbool items])
corr = [(outer column, inner column)]"""
import itertools
import vlib, sqlgen, sqlq
from sqlgen import e_coq

# ---------------- tables ----------------
def prefix(name):
    return "c" if name.startswith("t") else "d"

def table_spec(t):
    p = prefix(t["name"])
    s = {"name": t["name"], "cols": [[f"{p}{i}", ty] for i, ty in enumerate(t["types"])],
         "rows": [[sqlgen.val_cell(v) for v in r] for r in t["rows"]]}
    if t.get("batch_sizes"):
        s["batch_sizes"] = t["batch_sizes"]
    return s

def batches(t):
    """the record batches the harness registers (sqlutil::split_points)"""
    rows, n = t["rows"], len(t["rows"])
    out, lo = [], 0
    for s in t.get("batch_sizes") or []:
        k = min(s, n - lo)
        out.append(rows[lo:lo + k]); lo += k
    if lo < n or not out:
        out.append(rows[lo:n])
    return out

def rel_coq(rows):
    return "[" + "; ".join(sqlgen.row_coq(r) for r in rows) + "]"

def bdb_coq(tables):
    return "[" + ";\n ".join("[" + "; ".join(rel_coq(b) for b in batches(t)) + "]" for t in tables) + "]"

# ---------------- SQL ----------------
CMP_FLIP = {"CEq": "CEq", "CNe": "CNe", "CLt": "CGt", "CLe": "CGe", "CGt": "CLt", "CGe": "CLe"}

def sub_table(sub):
    return sub if sub[0] == "table" else sub[1]

def sub_sql(sub, sel, corr, of):
    # base tables are referenced by their own name, never through an alias: SubqueryDecorrelation leaves
    # `FROM s AS q` alone (the alias node hides the scan), so only this spelling reaches the join rewrites
    tab = sub_table(sub)
    a = tab[2]
    p = prefix(a)
    f = lambda i, a=a, p=p: f"{a}.{p}{i}"
    conds = []
    if sub[0] == "filter":
        conds.append(sqlq.esql(sub[2], f))
    for i, j in corr:
        conds.append(f"{f(j)} = {of(i)}")
    return f"SELECT {sel(f)} FROM {a}" + (" WHERE " + " AND ".join(conds) if conds else "")

def scalar_sql(agg, sub, vcol, corr, of):
    if agg is None:
        sel = lambda f: f(vcol)
    else:
        sel = lambda f: sqlq.FN_SQL[agg[0]].format(sqlq.esql(agg[1], f))
    return "(" + sub_sql(sub, sel, corr, of) + ")"

def spred_sql(p, of):
    t = p[0]
    if t == "exists":
        return f"{'NOT ' if p[1] else ''}EXISTS ({sub_sql(p[2], lambda f: f(0), p[3], of)})"
    if t == "in":
        return f"({sqlq.esql(p[2], of)} {'NOT ' if p[1] else ''}IN ({sub_sql(p[3], lambda f: f(p[4]), p[5], of)}))"
    if t == "scalar":
        return scalar_sql(p[1], p[2], p[3], p[4], of)
    if t == "cmp":
        sc = scalar_sql(p[3], p[4], p[5], p[6], of)
        if p[7]:
            return f"({sc} {sqlgen.CMP_SQL[CMP_FLIP[p[1]]]} {sqlq.esql(p[2], of)})"
        return f"({sqlq.esql(p[2], of)} {sqlgen.CMP_SQL[p[1]]} {sc})"
    raise ValueError(p)

def sbool_sql(b, of):
    t = b[0]
    if t == "atom":
        return spred_sql(b[1], of)
    if t == "expr":
        return sqlq.esql(b[1], of)
    if t == "and":
        return f"({sbool_sql(b[1], of)} AND {sbool_sql(b[2], of)})"
    if t == "or":
        return f"({sbool_sql(b[1], of)} OR {sbool_sql(b[2], of)})"
    if t == "not":
        return f"(NOT {sbool_sql(b[1], of)})"
    raise ValueError(b)

def top_and_sql(b, of):
    """top-level conjunction without the outer parentheses: WHERE a AND b AND c"""
    if b[0] == "and":
        return f"{top_and_sql(b[1], of)} AND {top_and_sql(b[2], of)}"
    return sbool_sql(b, of)

TRUE_W = ("expr", ("lit", True))

def squery_sql(sq):
    _, outer, w, items = sq
    if outer[0] == "table":
        if prefix(outer[2]) != "c":
            raise ValueError("outer relation must use c-columns")
        src, of = outer[2], (lambda i, n=outer[2]: f"{n}.c{i}")
    else:
        src, of = sqlq.from_clause(outer)
    sel = ", ".join(f"{sbool_sql(it, of)} AS c{i}" for i, it in enumerate(items))
    s = f"SELECT {sel} FROM {src}"
    if w != TRUE_W:
        s += " WHERE " + top_and_sql(w, of)
    return s

# ---------------- Coq ----------------
def nat(n):
    return f"{n}%nat"

def corr_coq(c):
    return "[" + "; ".join(f"({nat(i)}, {nat(j)})" for i, j in c) + "]"

def agg_coq(a):
    return "None" if a is None else f"(Some ({a[0]}, {e_coq(a[1])}))"

def spred_coq(p):
    t = p[0]
    if t == "exists":
        return f"(SExists {sqlq.bl(p[1])} {sqlq.to_coq(p[2])} {corr_coq(p[3])})"
    if t == "in":
        return f"(SIn {sqlq.bl(p[1])} {e_coq(p[2])} {sqlq.to_coq(p[3])} {nat(p[4])} {corr_coq(p[5])})"
    if t == "scalar":
        return f"(SScalar {agg_coq(p[1])} {sqlq.to_coq(p[2])} {nat(p[3])} {corr_coq(p[4])})"
    if t == "cmp":
        return f"(SCmp {p[1]} {e_coq(p[2])} {agg_coq(p[3])} {sqlq.to_coq(p[4])} {nat(p[5])} {corr_coq(p[6])})"
    raise ValueError(p)

def sbool_coq(b):
    t = b[0]
    if t == "atom":
        return f"(BAtom {spred_coq(b[1])})"
    if t == "expr":
        return f"(BExpr {e_coq(b[1])})"
    if t in ("and", "or"):
        return f"({'BAnd' if t == 'and' else 'BOr'} {sbool_coq(b[1])} {sbool_coq(b[2])})"
    if t == "not":
        return f"(BNot {sbool_coq(b[1])})"
    raise ValueError(b)

def squery_coq(sq):
    _, outer, w, items = sq
    return f"(SSelect {sqlq.to_coq(outer)} {sbool_coq(w)} [{'; '.join(sbool_coq(i) for i in items)}])"

SUB_REQ = "From QV Require Import Sql.Sub."
SUB_CLASSES = ["in-null", "in-corr", "count-bug", "agg-dup", "scalar-name", "scalar-batches", "scalar-multirow", "scalar-first-null", "unsupported", "base"]
SUB_EVAL_DEF = sqlgen.ENC_DEF + """
Definition encrel (r : rel) : list (list (list Z)) := map (map enc) r.
Definition runsub (B : list (list rel)) (sq : squery) :=
  (encrel (sub_eval_eng eng_quirks B Decorr sq), encrel (sub_eval_eng eng_quirks B Rowwise sq), encrel (sub_eval_sql B sq),
   [sub_err_eng eng_quirks B Decorr sq; sub_err_eng eng_quirks B Rowwise sq; sub_err_sql B sq; sub_must_err_sql B sq],
   sub_known_bits eng_quirks B Decorr sq, sub_known_bits eng_quirks B Rowwise sq)."""

def decode(enc):
    return [[sqlgen.dec(c) for c in r] for r in enc]

def has_err(rows):
    return any(v == ("err",) for r in rows for v in r)

def run_engine(cases):
    return vlib.run_harness("sql", cases, timeout=3000)

def judge_one(res, model_rows, model_err, ref_rows, ref_may_err, ref_must_err):
    """one engine outcome against the engine model and the reference -> (status, eq, ok).
    An engine error is not a wrong answer: it is judged only where the engine model predicts it (eq), otherwise
    excluded. Where the reference demands an error whatever the evaluation order (must_err), only an error
    satisfies it; where an error is merely possible (a conjunct errs on a row another conjunct rejects) the engine
    may also return the rows without the erring ones."""
    model_err = model_err or has_err(model_rows)
    ref_must_err = ref_must_err or has_err(ref_rows)
    if "ok" not in res:
        if "err" not in res:
            return "engine-panic", False, False
        return ("ran", True, True) if model_err else ("engine-error", False, False)
    impl = sqlq.rows_from_impl(res["ok"])
    eq = (not model_err) and sqlq.bag_equal(impl, model_rows)
    ok = (not ref_must_err) and sqlq.bag_equal(impl, ref_rows)
    return "ran", eq, ok

def run_sub(ctx, tag, groups):
    """groups: [{"tables": [...], "queries": [{"sq": squery, "kind": str}]}] -> one result per (statement, mode)."""
    cases, terms, index, preludes = [], [], [], []
    for gi, g in enumerate(groups):
        sqls = [squery_sql(x["sq"]) for x in g["queries"]]
        cases.append({"tables": [table_spec(t) for t in g["tables"]], "queries": sqls, "noopt": True})
        preludes.append(f"Definition B{gi} : list (list rel) := {bdb_coq(g['tables'])}.")
        for qi, x in enumerate(g["queries"]):
            index.append((gi, qi))
            terms.append(f"runsub B{gi} {squery_coq(x['sq'])}")
    outs = run_engine(cases)
    vals = vlib.coq_eval_list(SUB_REQ, SUB_EVAL_DEF + "\n" + "\n".join(preludes), terms, tag, shard=40)
    results = []
    for (gi, qi), v in zip(index, vals):
        dec_enc, row_enc, sql_enc, errs, bits_dec, bits_row = v
        x = groups[gi]["queries"][qi]
        ref_rows = decode(sql_enc)
        for mode, enc, merr, bits, key in (("opt", dec_enc, errs[0], bits_dec, "results"),
                                           ("noopt", row_enc, errs[1], bits_row, "noopt")):
            o = outs[gi]
            res = o[key][qi] if key in o else {"err": "harness: " + str(o)[:300]}
            model_rows = decode(enc)
            status, eq, ok = judge_one(res, model_rows, bool(merr), ref_rows, bool(errs[2]), bool(errs[3]))
            r = {"group": gi, "kind": x.get("kind"), "mode": mode, "sql": cases[gi]["queries"][qi], "status": status,
                 "eq": eq, "ok": ok, "classes": [c for c, b in zip(SUB_CLASSES, bits) if b],
                 "n_sql_rows": len(ref_rows), "ref_err": bool(errs[3]) or has_err(ref_rows)}
            if status != "ran" or not (eq and ok):
                r["detail"] = {"impl": (res["ok"]["rows"][:20] if "ok" in res else res),
                               "model_eng": [[str(c) for c in row] for row in model_rows[:20]], "model_err": bool(merr),
                               "sql": [[str(c) for c in row] for row in ref_rows[:20]], "sql_err": r["ref_err"]}
            results.append(r)
    return results

def judge(ctx, results, groups, max_error_rate=0.35):
    """the verdict protocol over run_sub / run_with results (same shape as relcheck.judge_rel)"""
    ran = [r for r in results if r["status"] == "ran"]
    errs = [r for r in results if r["status"] != "ran"]
    ctx.cov["evaluations"] = len(results)
    ctx.cov["engine_errors_excluded"] = len(errs)
    ctx.cov["error_samples"] = [{"sql": r["sql"], "mode": r["mode"], "detail": str(r.get("detail"))[:300]} for r in errs[:5]]
    ctx.cov["engine_panics"] = sum(1 for r in errs if r["status"] == "engine-panic")
    cases = [{"sql": r["sql"], "mode": r["mode"], "kind": r["kind"], "classes": r["classes"],
              "tables": groups[r["group"]]["tables"], "detail": r.get("detail")} for r in ran]
    def cls(c):
        # a failing case is attributed to its classes only if every one of them is listed
        # ("unsupported" is not a defect class: the statement fails, which is not a wrong answer)
        need = [k for k in c["classes"] if k != "unsupported"]
        if need and all(ctx.is_known(k) for k in need):
            for k in need:
                ctx.known_finding(k, ctx.known[k])
            return need[0]
        return None
    ctx.judge(cases, [r["eq"] for r in ran], [r["ok"] for r in ran], classify=cls, impl_outs=[r.get("detail") for r in ran])
    for r in errs:
        if r["status"] == "engine-panic":
            ctx.violation({"kind": "engine panicked", "sql": r["sql"], "mode": r["mode"], "detail": r.get("detail"),
                           "tables": groups[r["group"]]["tables"]}, found_input=True)
            break
    if results and len(errs) > max_error_rate * len(results):
        ctx.violation({"kind": "correspondence-degraded: too many statements fail with an engine error",
                       "errors": len(errs), "total": len(results), "samples": ctx.cov["error_samples"]}, found_input=False,
                      tag="errors")
    return ran, errs

# ======================= WITH-nested queries (C28) =======================
# wq: ("wref", id, name) | ("wwith", id, name, def, body) | ("wfilter", q, p) | ("wproject", q, [e])
#   | ("wjoin", jt, l, r, on) | ("win", q, e, sub)
# Every relation has two columns c0, c1 (a bare join has four and only occurs under a projection).
def _from_item(q):
    a = sqlq.fresh("a")
    if q[0] == "wref":
        return f"{q[2]} AS {a}", a
    return f"({wq_sql(q)}) AS {a}", a

def _with_chain(q):
    defs = []
    while q[0] == "wwith":
        defs.append(f"{q[2]} AS ({wq_sql(q[3])})")
        q = q[4]
    return ("WITH " + ", ".join(defs) + " ") if defs else "", q

def wq_sql(q):
    t = q[0]
    if t == "wref":
        return f"SELECT c0, c1 FROM {q[2]}"
    if t == "wwith":
        pre, body = _with_chain(q)
        return pre + wq_sql(body)
    if t == "wfilter":
        src, a = _from_item(q[1])
        return f"SELECT {a}.c0 AS c0, {a}.c1 AS c1 FROM {src} WHERE {sqlq.esql(q[2], lambda i: f'{a}.c{i}')}"
    if t in ("wjoin", "wproject"):
        j = q if t == "wjoin" else (q[1] if q[1][0] == "wjoin" else None)
        if j is None:
            src, a = _from_item(q[1])
            f = lambda i: f"{a}.c{i}"
        else:
            # both sides keep their column names c0, c1 (two derived tables, two references to one CTE): the qualifier
            # alone tells them apart (needs /repo 74e894e: a derived table's output columns carry its alias)
            ls, la = _from_item(j[2])
            rs, ra = _from_item(j[3])
            f = lambda i: f"{la}.c{i}" if i < 2 else f"{ra}.c{i - 2}"
            src = f"{ls} {sqlq.JT_SQL[j[1]]} {rs} ON {sqlq.esql(j[4], f)}"
        es = [("col", i, "") for i in range(4)] if t == "wjoin" else q[2]
        return "SELECT " + ", ".join(f"{sqlq.esql(e, f)} AS c{i}" for i, e in enumerate(es)) + f" FROM {src}"
    if t == "win":
        src, a = _from_item(q[1])
        pre, body = _with_chain(q[3])
        bs, b = _from_item(body)
        return (f"SELECT {a}.c0 AS c0, {a}.c1 AS c1 FROM {src} WHERE "
                f"{sqlq.esql(q[2], lambda i: f'{a}.c{i}')} IN ({pre}SELECT {b}.c0 FROM {bs})")
    raise ValueError(q)

def wq_coq(q):
    t = q[0]
    if t == "wref":
        return f"(WRef {nat(q[1])})"
    if t == "wwith":
        return f"(WWith {nat(q[1])} {wq_coq(q[3])} {wq_coq(q[4])})"
    if t == "wfilter":
        return f"(WFilter {wq_coq(q[1])} {e_coq(q[2])})"
    if t == "wproject":
        return f"(WProject {wq_coq(q[1])} [{'; '.join(e_coq(e) for e in q[2])}])"
    if t == "wjoin":
        return f"(WJoin {q[1]} {wq_coq(q[2])} {wq_coq(q[3])} {e_coq(q[4])})"
    if t == "win":
        return f"(WIn {wq_coq(q[1])} {e_coq(q[2])} {wq_coq(q[3])})"
    raise ValueError(q)

def wq_names(q, out=None):
    """CTE names defined anywhere in q (ids, with repeats)"""
    out = [] if out is None else out
    if q[0] == "wwith":
        out.append(q[1]); wq_names(q[3], out); wq_names(q[4], out)
    elif q[0] in ("wfilter", "wproject"):
        wq_names(q[1], out)
    elif q[0] == "wjoin":
        wq_names(q[2], out); wq_names(q[3], out)
    elif q[0] == "win":
        wq_names(q[1], out); wq_names(q[3], out)
    return out

WITH_REQ = "From QV Require Import C28.Model."
WITH_CLASSES = ["cte-name-reuse", "base"]
WITH_EVAL_DEF = sqlgen.ENC_DEF + """
Definition encrel (r : rel) : list (list (list Z)) := map (map enc) r.
Definition runw (db : list rel) (E : env) (w : wq) :=
  (option_map encrel (cte_eval_eng eng_binder_global eng_cache_by_name false eng_qsem db E w),
   option_map encrel (cte_eval_eng eng_binder_global eng_cache_by_name true eng_qsem db E w),
   option_map encrel (cte_eval_sql db E w), cte_known_bits db E w).
(* another candidate / another materialisation order (the engine iterates HashMaps, and candidate widths are those
   AFTER optimisation): only consulted for statements that reuse a name *)
Definition runw_alt (db : list rel) (E : env) (w : wq) (rowwise : bool) (idx : name -> nat) (perm : list name) :=
  option_map (fun r => encrel (mat_eval eng_qsem db (fun n l => nth_error l (idx n)) (Some perm) rowwise r))
             (binder_resolve eng_binder_global E w)."""

def env_coq(tables):
    return "[" + "; ".join(f"({nat(i)}, BTable {nat(i)} {nat(len(t['types']))})" for i, t in enumerate(tables)) + "]"

def run_with(ctx, tag, groups):
    """groups: [{"tables": [...], "queries": [{"w": wq, "kind": str}]}]; table i has name id i.
    -> one result per (statement, plan)."""
    cases, terms, index, preludes = [], [], [], []
    for gi, g in enumerate(groups):
        sqls = [wq_sql(x["w"]) for x in g["queries"]]
        cases.append({"tables": [table_spec(t) for t in g["tables"]], "queries": sqls, "noopt": True})
        preludes.append(f"Definition db{gi} : list rel := {sqlq.db_coq([t['rows'] for t in g['tables']])}.\n"
                        f"Definition E{gi} : env := {env_coq(g['tables'])}.")
        for qi, x in enumerate(g["queries"]):
            index.append((gi, qi))
            terms.append(f"runw db{gi} E{gi} {wq_coq(x['w'])}")
    outs = run_engine(cases)
    prelude = WITH_EVAL_DEF + "\n" + "\n".join(preludes)
    vals = vlib.coq_eval_list(WITH_REQ, prelude, terms, tag, shard=40)
    results, retry = [], []
    for (gi, qi), v in zip(index, vals):
        dec_enc, row_enc, sql_enc, bits = v
        x = groups[gi]["queries"][qi]
        ref_rows = None if sql_enc is None else decode(sql_enc)
        for mode, key, eng_enc in (("opt", "results", dec_enc), ("noopt", "noopt", row_enc)):
            model_rows = None if eng_enc is None else decode(eng_enc)
            o = outs[gi]
            res = o[key][qi] if key in o else {"err": "harness: " + str(o)[:300]}
            r = {"group": gi, "qi": qi, "kind": x.get("kind"), "mode": mode, "sql": cases[gi]["queries"][qi],
                 "classes": [c for c, b in zip(WITH_CLASSES, bits) if b], "n_sql_rows": len(ref_rows or []),
                 "ref_err": ref_rows is None}
            if "ok" not in res:
                if "err" not in res:
                    r.update(status="engine-panic", eq=False, ok=False)
                elif model_rows is None:
                    r.update(status="ran", eq=True, ok=True)       # an unbound name: the statement must fail
                else:
                    r.update(status="engine-error", eq=False, ok=False)
            else:
                impl = sqlq.rows_from_impl(res["ok"])
                r.update(status="ran", eq=model_rows is not None and sqlq.bag_equal(impl, model_rows),
                         ok=ref_rows is not None and sqlq.bag_equal(impl, ref_rows), impl=impl)
                if not r["eq"] and "cte-name-reuse" in r["classes"] and model_rows is not None:
                    retry.append(r)
            if r["status"] != "ran" or not (r["eq"] and r["ok"]):
                r["detail"] = {"impl": (res["ok"]["rows"][:20] if "ok" in res else res),
                               "model_eng": None if model_rows is None else [[str(c) for c in row] for row in model_rows[:20]],
                               "sql": None if ref_rows is None else [[str(c) for c in row] for row in ref_rows[:20]]}
            results.append(r)
    # statements that reuse a name: which definition wins the cache is not determined by the statement alone
    if retry:
        alt_terms, alt_index = [], []
        for r in retry:
            x = groups[r["group"]]["queries"][r["qi"]]
            defd = wq_names(x["w"])
            names = sorted(set(defd))
            reused = [n for n in names if defd.count(n) > 1 or n < 10]      # defined twice, or a table's name
            picks = list(itertools.product(range(3), repeat=len(reused)))[:9]
            for perm in itertools.permutations(names):
                for pk in picks:
                    idx = ("(fun n => match n with " + " | ".join(f"{nat(n)} => {nat(k)}" for n, k in zip(reused, pk))
                           + " | _ => 0%nat end)")
                    alt_terms.append(f"runw_alt db{r['group']} E{r['group']} {wq_coq(x['w'])} {sqlq.bl(r['mode'] == 'noopt')} {idx} "
                                     f"[{'; '.join(nat(n) for n in perm)}]")
                    alt_index.append(r)
        alts = vlib.coq_eval_list(WITH_REQ, prelude, alt_terms, tag + "_alt", shard=60)
        for r, enc in zip(alt_index, alts):
            if not r["eq"] and enc is not None and sqlq.bag_equal(r["impl"], decode(enc)):
                r["eq"] = True
                r["via_alternative_candidate"] = True
    for r in results:
        r.pop("impl", None)
    return results
