"""Shared driver for the SQL-level properties: run query ASTs through the real engine and through the
Gallina semantics (engine model `eng_qsem` and SQL reference `sql_qsem` of Sql/Query.v), compare."""
import vlib, sqlgen, sqlq

REQ = "From QV Require Import Sql.Query."
CLASSES = ["dominated-null", "values-empty", "setop-null", "setop-all"]

def table_spec(name, types, rows, batch_sizes=None, parquet=None):
    t = {"name": name, "cols": [[f"c{i}", ty] for i, ty in enumerate(types)],
         "rows": [[sqlgen.val_cell(v) for v in r] for r in rows]}
    if batch_sizes:
        t["batch_sizes"] = batch_sizes
    if parquet:
        t["parquet"] = parquet
    return t

def sort_info(q):
    """(sort node, skip, fetch) if q is ORDER BY [LIMIT] at top level with plain-column keys"""
    if q[0] == "sort":
        return q, 0, None
    if q[0] == "limit" and q[1][0] == "sort":
        return q[1], q[2], q[3]
    return None

def keyseq(rows, sortq):
    idx = [k[0][1] for k in sortq[2]]
    return [tuple(r[i] for i in idx) for r in rows]

def keyseq_equal(a, b):
    """key sequences equal cell by cell (doubles that came from a division may differ in the last bits)"""
    return len(a) == len(b) and all(len(x) == len(y) and all(sqlq.close(u, v) for u, v in zip(x, y)) for x, y in zip(a, b))

def run_rel(ctx, tag, groups, harness_env=None, extra_case=None):
    """groups: list of {"tables":[{"name","types","rows",...}], "queries":[{"q":ast,"kind":..}]}.
    Returns flat list of per-query result dicts."""
    cases, coq_terms, index = [], [], []
    preludes = []
    for gi, g in enumerate(groups):
        specs = [table_spec(t["name"], t["types"], t["rows"], t.get("batch_sizes"), t.get("parquet")) for t in g["tables"]]
        sqls = [sqlq.to_sql(x["q"]) for x in g["queries"]]
        c = {"tables": specs, "queries": sqls}
        if extra_case:
            c.update(extra_case)
        cases.append(c)
        preludes.append(f"Definition db{gi} : list rel := {sqlq.db_coq([t['rows'] for t in g['tables']])}.")
        for qi, x in enumerate(g["queries"]):
            index.append((gi, qi))
            sq = sqlq.to_coq(sort_info(x['q'])[0]) if sort_info(x['q']) else '(QValues 0%nat [])'
            coq_terms.append(f"(run3 db{gi} {sqlq.to_coq(x['q'])}, run3 db{gi} {sq}, known_bits db{gi} {sqlq.to_coq(x['q'])})")
    outs = vlib.run_harness("sql", cases, timeout=3000, env=harness_env)
    prelude = sqlq.EVAL_DEF + "\n" + "\n".join(preludes)
    vals = vlib.coq_eval_list(REQ, prelude, coq_terms, tag, shard=40)
    results = []
    for (gi, qi), v in zip(index, vals):
        g = groups[gi]
        x = g["queries"][qi]
        # Coq prints left-nested pairs flattened: ((a,b,c),(d,e,f),g) is shown as (a,b,c,(d,e,f),g)
        eng_enc, sql_enc, known, (engf_enc, sqlf_enc, _), bits = v
        eng_rows = [[sqlgen.dec(c) for c in r] for r in eng_enc]
        sql_rows = [[sqlgen.dec(c) for c in r] for r in sql_enc]
        eng_full = [[sqlgen.dec(c) for c in r] for r in engf_enc]
        sql_full = [[sqlgen.dec(c) for c in r] for r in sqlf_enc]
        res = outs[gi].get("results", [{}] * len(g["queries"]))[qi] if "results" in outs[gi] else {"err": str(outs[gi])}
        r = {"group": gi, "kind": x.get("kind"), "sql": cases[gi]["queries"][qi], "q": x["q"],
             "classes": [c for c, b in zip(CLASSES, bits) if b], "known": bool(known),
             "n_model_rows": len(eng_rows), "n_sql_rows": len(sql_rows)}
        if "ok" not in res:
            r.update(status="engine-error" if "err" in res else "engine-panic", detail=res)
            results.append(r)
            continue
        impl_rows = sqlq.rows_from_impl(res["ok"])
        r["impl_rows"] = len(impl_rows)
        si = sort_info(x["q"])
        if si:
            sortq, skip, fetch = si
            def ordered_ok(model_rows, full):
                end = None if fetch is None else skip + fetch
                want = keyseq(full[skip:end], sortq)
                if not keyseq_equal(keyseq(impl_rows, sortq), want):
                    return False
                if fetch is None and skip == 0:
                    return sqlq.bag_equal(impl_rows, model_rows)
                rest = list(full)           # impl rows must be a sub-bag of the unlimited sorted relation
                for row in impl_rows:
                    for j, y in enumerate(rest):
                        if len(row) == len(y) and all(sqlq.close(a, b) for a, b in zip(row, y)):
                            del rest[j]; break
                    else:
                        return False
                return True
            r["eq"] = ordered_ok(eng_rows, eng_full)
            r["ok"] = ordered_ok(sql_rows, sql_full)
        else:
            r["eq"] = sqlq.bag_equal(impl_rows, eng_rows)
            r["ok"] = sqlq.bag_equal(impl_rows, sql_rows)
        r["status"] = "ran"
        if not r["ok"] or not r["eq"]:
            r["detail"] = {"impl": res["ok"]["rows"][:20], "model_eng": [[str(c) for c in row] for row in eng_rows[:20]],
                           "sql": [[str(c) for c in row] for row in sql_rows[:20]]}
            r["tables"] = [{k: t.get(k) for k in ("name", "types", "rows", "batch_sizes", "parquet")} for t in g["tables"]]
        results.append(r)
    return results

def judge_rel(ctx, results, max_error_rate=0.2):
    """Standard judgement. Engine errors are not wrong answers (the property allows an error), so they are counted and
    excluded — unless they dominate, which would make the run meaningless."""
    ran = [r for r in results if r["status"] == "ran"]
    errs = [r for r in results if r["status"] != "ran"]
    ctx.cov["evaluations"] = len(results)
    ctx.cov["engine_errors_excluded"] = len(errs)
    ctx.cov["error_samples"] = [{"sql": r["sql"], "detail": str(r["detail"])[:300]} for r in errs[:5]]
    panics = [r for r in errs if r["status"] == "engine-panic"]
    ctx.cov["engine_panics"] = len(panics)
    def classify(c):
        return c["classes"][0] if c["classes"] else None
    # a failing case is attributed to a class only if every class it is in is listed
    cases = [{"sql": r["sql"], "kind": r["kind"], "classes": r["classes"], "detail": r.get("detail"), "tables": r.get("tables")}
             for r in ran]
    def cls(c):
        if not c["classes"]:
            return None
        if all(ctx.is_known(k) for k in c["classes"]):
            for k in c["classes"]:
                ctx.known_finding(k, ctx.known[k])
            return c["classes"][0]
        return None
    ctx.judge(cases, [r["eq"] for r in ran], [r["ok"] for r in ran], classify=cls,
              impl_outs=[r.get("detail") for r in ran])
    if results and len(errs) > max_error_rate * len(results):
        ctx.violation({"kind": "correspondence-degraded: too many statements fail with an engine error",
                       "errors": len(errs), "total": len(results), "samples": ctx.cov["error_samples"]}, found_input=False,
                      tag="errors")
    return ran, errs
