"""Configuration-independence driver (C04, C07, C08): the SAME statements over the SAME rows are executed by the real engine
under a ladder of configurations (table layout, environment, memory limit); the Gallina engine model and the SQL reference
(Sql/Query.v) are evaluated ONCE per statement in Coq and every configuration is compared with them.

bases: [{"tables": [{"name","types","rows"}], "queries": [{"q": ast, "kind": str}]}]
config: {"name": str, "layout": f(base_index, table) -> table with batch_sizes / parquet, "env": {..}|None,
         "extra": {..}|None (merged into the harness case, e.g. memory_limit), "module": harness binary (default "sql")}"""
import os, shutil, tempfile, time
import vlib, sqlgen, sqlq, relcheck

def _tmp_root():
    d = os.path.join(vlib.WORK, "tmp")
    os.makedirs(d, exist_ok=True)
    return d

def reference(ctx, tag, bases, shard=24):
    terms, index, preludes = [], [], []
    for bi, b in enumerate(bases):
        preludes.append(f"Definition db{bi} : list rel := {sqlq.db_coq([t['rows'] for t in b['tables']])}.")
        for qi, x in enumerate(b["queries"]):
            index.append((bi, qi))
            si = relcheck.sort_info(x["q"])
            sq = sqlq.to_coq(si[0]) if si else "(QValues 0%nat [])"
            terms.append(f"(run3 db{bi} {sqlq.to_coq(x['q'])}, run3 db{bi} {sq}, known_bits db{bi} {sqlq.to_coq(x['q'])})")
    prelude = sqlq.EVAL_DEF + "\n" + "\n".join(preludes)
    vals = vlib.coq_eval_list(relcheck.REQ, prelude, terms, tag, shard=shard, timeout=1500)
    refs = {}
    for (bi, qi), v in zip(index, vals):
        eng_enc, sql_enc, known, (engf_enc, sqlf_enc, _), bits = v
        dec = lambda enc: [[sqlgen.dec(c) for c in r] for r in enc]
        refs[(bi, qi)] = {"eng": dec(eng_enc), "sql": dec(sql_enc), "eng_full": dec(engf_enc), "sql_full": dec(sqlf_enc),
                          "known": bool(known), "classes": [c for c, b in zip(relcheck.CLASSES, bits) if b]}
    return refs

def sqls_of(bases):
    return [[x.get("sql") or sqlq.to_sql(x["q"]) for x in b["queries"]] for b in bases]

def run_config(bases, sqls, cfg, timeout=3000):
    cases = []
    for bi, b in enumerate(bases):
        tabs = [cfg["layout"](bi, dict(t)) for t in b["tables"]]
        specs = [relcheck.table_spec(t["name"], t["types"], t["rows"], t.get("batch_sizes"), t.get("parquet")) for t in tabs]
        for extra_t in cfg.get("extra_tables", []):
            specs.append(relcheck.table_spec(extra_t["name"], extra_t["types"], extra_t["rows"], extra_t.get("batch_sizes"), extra_t.get("parquet")))
        c = {"tables": specs, "queries": sqls[bi]}
        if cfg.get("extra"):
            c.update(cfg["extra"])
        cases.append(c)
    # a private TMPDIR per harness process: the engine's spill directory is <temp_dir>/query_engine_spill/<kind>_<partition>_<n>
    # with n a PER-PROCESS counter, so two engine processes sharing /tmp overwrite and delete each other's spill files
    tmp = tempfile.mkdtemp(prefix="conf-", dir=_tmp_root())
    env = dict(cfg.get("env") or {}, TMPDIR=tmp)
    try:
        return vlib.run_harness(cfg.get("module", "sql"), cases, timeout=timeout, env=env)
    finally:
        shutil.rmtree(tmp, ignore_errors=True)

def sub_bag(rows, full):
    rest = list(full)
    for row in rows:
        for j, y in enumerate(rest):
            if len(row) == len(y) and all(sqlq.close(a, b) for a, b in zip(row, y)):
                del rest[j]
                break
        else:
            return False
    return True

def compare(q, ref, res):
    """one engine result against the model (eq) and the reference (ok); ORDER BY results are compared as key sequences"""
    r = {}
    if "ok" not in res:
        r.update(status="engine-error" if "err" in res else "engine-panic", detail={k: v for k, v in res.items() if k in ("err", "panic", "harness_error")} or res)
        return r
    impl_rows = sqlq.rows_from_impl(res["ok"])
    r["impl_rows"] = len(impl_rows)
    r["_rows"] = impl_rows
    si = relcheck.sort_info(q)
    if si:
        sortq, skip, fetch = si
        def ordered_ok(model_rows, full):
            end = None if fetch is None else skip + fetch
            if relcheck.keyseq(impl_rows, sortq) != relcheck.keyseq(full[skip:end], sortq):
                return False
            if fetch is None and skip == 0:
                return sqlq.bag_equal(impl_rows, model_rows)
            return sub_bag(impl_rows, full)
        r["eq"] = ordered_ok(ref["eng"], ref["eng_full"])
        r["ok"] = ordered_ok(ref["sql"], ref["sql_full"])
    else:
        r["eq"] = sqlq.bag_equal(impl_rows, ref["eng"])
        r["ok"] = sqlq.bag_equal(impl_rows, ref["sql"])
    r["status"] = "ran"
    if not r["ok"] or not r["eq"]:
        r["detail"] = {"impl": res["ok"]["rows"][:20], "model_eng": [[str(c) for c in row] for row in ref["eng"][:20]],
                       "sql": [[str(c) for c in row] for row in ref["sql"][:20]]}
    return r

def run_ladder(ctx, tag, bases, configs, keep_rows=True):
    """-> (results, refs, timing). results: one dict per (base, query, configuration)."""
    t0 = time.time()
    refs = reference(ctx, tag, bases)
    timing = {"coq_reference_s": round(time.time() - t0, 1)}
    sqls = sqls_of(bases)
    results = []
    for cfg in configs:
        t1 = time.time()
        outs = run_config(bases, sqls, cfg)
        timing[cfg["name"]] = round(time.time() - t1, 1)
        for bi, b in enumerate(bases):
            o = outs[bi]
            for qi, x in enumerate(b["queries"]):
                res = o["results"][qi] if "results" in o and qi < len(o["results"]) else {"err": "harness: " + str(o)[:300]}
                r = compare(x["q"], refs[(bi, qi)], res)
                if not keep_rows:
                    r.pop("_rows", None)
                r.update(base=bi, qi=qi, cfg=cfg["name"], kind=x.get("kind"), sql=sqls[bi][qi], q=x["q"],
                         classes=refs[(bi, qi)]["classes"], known=refs[(bi, qi)]["known"],
                         n_sql_rows=len(refs[(bi, qi)]["sql"]), spilled=res.get("spilled"), ops=res.get("ops"))
                results.append(r)
    return results, refs, timing

def same_answer(q, a, b):
    """two engine results of the same statement: same bag, and the same key sequence where ORDER BY fixes it"""
    si = relcheck.sort_info(q)
    if si and relcheck.keyseq(a, si[0]) != relcheck.keyseq(b, si[0]):
        return False
    return sqlq.bag_equal(a, b)

def judge(ctx, results, baseline, error_ok=lambda r: False, classify_extra=None, max_excluded_rate=0.3):
    """Verdict for a ladder (results carry `_rows`: run_ladder(..., keep_rows=True)).
      * a statement whose BASELINE configuration returns the reference answer is judged in every configuration against the
        model (eq) and the reference (ok); classes of Sql/Query.v and `classify_extra(r) -> (class, impl_equals_model)` are
        honoured when listed in known_findings.txt;
      * a statement whose baseline already deviates from the reference (a defect that is not about configurations: it belongs to
        the SQL-semantics properties and is listed under `baseline_deviations`) is still required to give the SAME answer in
        every configuration;
      * an engine error is a violation unless error_ok(r) (C08: under a memory limit), or the statement fails in every
        configuration (outside the engine's SQL surface: counted, not judged)."""
    ctx.cov["evaluations"] = len(results)
    by_stmt = {}
    for r in results:
        by_stmt.setdefault((r["base"], r["qi"]), []).append(r)
    unsupported = {k for k, v in by_stmt.items() if all(x["status"] != "ran" for x in v)}
    errs = [r for r in results if r["status"] != "ran"]
    ctx.cov["statements"] = len(by_stmt)
    ctx.cov["statements_failing_in_every_configuration"] = len(unsupported)
    ctx.cov["engine_errors"] = len(errs)
    ctx.cov["engine_panics"] = sum(1 for r in errs if r["status"] == "engine-panic")
    ctx.cov["error_samples"] = [{"cfg": r["cfg"], "sql": r["sql"], "detail": str(r["detail"])[:300]} for r in errs[:6]]
    judged, deviating = [], []
    for k, v in by_stmt.items():
        b = [x for x in v if x["cfg"] == baseline]
        if b and b[0]["status"] == "ran" and not b[0]["ok"] and not b[0]["classes"]:
            deviating.append((k, v, b[0]))
        else:
            judged.extend(x for x in v if x["status"] == "ran")
    cases, eqs, oks, outs = [], [], [], []
    for r in judged:
        c = {"sql": r["sql"], "cfg": r["cfg"], "kind": r["kind"], "classes": list(r["classes"]), "base": r["base"]}
        eq = r["eq"]
        if not r["ok"] and classify_extra:
            ce = classify_extra(r)
            if ce:
                c["classes"] = c["classes"] + [ce[0]]
                eq = ce[1]
        cases.append(c); eqs.append(eq); oks.append(r["ok"]); outs.append(r.get("detail"))
    def cls(c):
        if not c["classes"]:
            return None
        if all(ctx.is_known(k) for k in c["classes"]):
            for k in c["classes"]:
                ctx.known_finding(k, ctx.known[k])
            return c["classes"][0]
        return None
    ctx.judge(cases, eqs, oks, classify=cls, impl_outs=outs)
    # statements whose baseline deviates: configurations must still agree with each other
    ctx.cov["baseline_deviations"] = {"statements": len(deviating),
        "samples": [{"sql": b["sql"], "kind": b["kind"], "detail": b.get("detail")} for _, _, b in deviating[:4]],
        "by_kind": {}}
    nd = 0
    for k, v, b in deviating:
        ctx.cov["baseline_deviations"]["by_kind"][b["kind"]] = ctx.cov["baseline_deviations"]["by_kind"].get(b["kind"], 0) + 1
        for x in v:
            if x["status"] == "ran" and x is not b and not same_answer(x["q"], x["_rows"], b["_rows"]):
                x["_base_rows"] = b["_rows"]          # lets a class predicate compare with the baseline instead of the reference
                ce = classify_extra(x) if classify_extra else None
                if ce and ctx.is_known(ce[0]) and ce[1]:
                    ctx.known_finding(ce[0], ctx.known[ce[0]])
                    continue
                nd += 1
                if nd <= 2:
                    ctx.violation({"kind": "configurations disagree (and the baseline differs from the reference)",
                                   "case": {"sql": x["sql"], "cfg": x["cfg"], "baseline": baseline, "base": x["base"]},
                                   "impl_output": {"this": [[str(c) for c in row] for row in x["_rows"][:20]],
                                                   "baseline": [[str(c) for c in row] for row in b["_rows"][:20]]}}, found_input=True)
    ctx.cov["baseline_deviations"]["configurations_disagreeing"] = nd
    # errors
    bad = []
    for r in errs:
        if (r["base"], r["qi"]) in unsupported and not any(x["status"] == "engine-panic" for x in by_stmt[(r["base"], r["qi"])]):
            continue
        if error_ok(r):
            continue
        ce = classify_extra(r) if classify_extra else None
        if ce and ctx.is_known(ce[0]) and ce[1]:
            ctx.known_finding(ce[0], ctx.known[ce[0]])
            continue
        bad.append(r)
    seen = set()
    for r in bad:
        ce = classify_extra(r) if classify_extra else None
        tag = (ce[0] if ce else None, str(r["detail"])[:60])
        if tag in seen or len(seen) >= 4:
            continue
        seen.add(tag)
        others = [x["cfg"] for x in by_stmt[(r["base"], r["qi"])] if x["status"] == "ran"]
        ctx.violation({"kind": "a statement that succeeds in one configuration fails in another",
                       "case": {"sql": r["sql"], "cfg": r["cfg"], "base": r["base"], "succeeds_in": others},
                       "impl_output": r["detail"], "class": ce[0] if ce else None}, found_input=True)
    ctx.cov["errors_not_allowed"] = len(bad)
    excluded = len(unsupported) + len(deviating)
    if results and excluded > max_excluded_rate * len(by_stmt):
        ctx.violation({"kind": "correspondence-degraded: too many statements fail everywhere or deviate in the baseline",
                       "unsupported": len(unsupported), "baseline_deviations": len(deviating), "statements": len(by_stmt),
                       "samples": ctx.cov["error_samples"]}, found_input=False, tag="errors")
    for r in results:
        r.pop("_rows", None)
        r.pop("_base_rows", None)
    return judged, errs, by_stmt

def per_config_table(results, names):
    t = {n: {"statements": 0, "ran": 0, "equal_reference": 0, "equal_model": 0, "engine_errors": 0} for n in names}
    for r in results:
        d = t[r["cfg"]]
        d["statements"] += 1
        if r["status"] == "ran":
            d["ran"] += 1
            d["equal_reference"] += 1 if r["ok"] else 0
            d["equal_model"] += 1 if r["eq"] else 0
        else:
            d["engine_errors"] += 1
    return t
