"""Generators of small tables and query shapes for the SQL-level checks (all randomness from the given rng)."""
from fractions import Fraction

def gen_value(rng, ty, null_p=0.25, small=True):
    if rng.random() < null_p:
        return None
    if ty in ("i64", "i32"):
        return rng.choice([0, 1, 1, 2, 3, -1, 7]) if small else rng.randint(-50, 50)
    if ty == "f64":
        return ("q", Fraction(rng.choice([0, 1, 3, 5, -3, 10]), rng.choice([1, 2, 4])))
    if ty == "str":
        return rng.choice(["a", "b", "ab", "", "é", "B", "a%", "aba"])
    if ty == "date":
        return ("d", rng.choice([0, 1, 365, 10957, -1]))
    if ty == "bool":
        return rng.random() < 0.5
    raise ValueError(ty)

def gen_table(rng, name, types, nrows=None, null_p=0.25):
    n = rng.choice([0, 1, 2, 3, 5, 8, 12]) if nrows is None else nrows
    rows = [[gen_value(rng, t, null_p) for t in types] for _ in range(n)]
    # force duplicates
    if rows and rng.random() < 0.6:
        for _ in range(rng.randint(1, 3)):
            rows.insert(rng.randint(0, len(rows)), list(rng.choice(rows)))
    sizes = []
    left = len(rows)
    while left > 0 and rng.random() < 0.7:
        k = rng.randint(1, max(1, left))
        sizes.append(k); left -= k
    return {"name": name, "types": list(types), "rows": rows, "batch_sizes": sizes or None}

def col(i):
    return ("col", i, f"c{i}")

def lit(v):
    return ("lit", v)

def tbl(idx, t):
    return ("table", idx, t["name"], len(t["types"]))

def lit_for(rng, ty):
    return lit(gen_value(rng, ty, null_p=0.0))

def gen_pred(rng, types, depth=1, offset=0):
    """boolean predicate over columns of the given types (positions offset..)"""
    def atom():
        i = rng.randrange(len(types))
        ty = types[i]
        k = rng.random()
        if k < 0.15:
            return (rng.choice(["isnull", "isnotnull"]), col(offset + i))
        same = [j for j, t in enumerate(types) if t == ty and j != i]
        if same and k < 0.35:
            return ("cmp", rng.choice(["CEq", "CNe", "CLt", "CGe"]), col(offset + i), col(offset + rng.choice(same)))
        if ty == "bool":
            return ("cmp", "CEq", col(offset + i), lit(rng.random() < 0.5))
        return ("cmp", rng.choice(["CEq", "CNe", "CLt", "CLe", "CGt", "CGe"]), col(offset + i), lit_for(rng, ty))
    if depth == 0 or rng.random() < 0.4:
        return atom()
    k = rng.choice(["and", "and", "or", "not"])
    if k == "not":
        return ("not", gen_pred(rng, types, depth - 1, offset))
    return (k, gen_pred(rng, types, depth - 1, offset), gen_pred(rng, types, depth - 1, offset))
