"""SQL expression/value ASTs with two renderers: SQL text (for the engine) and Coq terms (for the
Gallina semantics in coq/theories/Sql). Values: None | int | str | bool | ("q", Fraction) | ("d", days).
Expressions are tuples; see render functions."""
from fractions import Fraction
import datetime, struct

# ---------------- values ----------------
def val_sql(v):
    if v is None:
        return "NULL"
    if isinstance(v, bool):
        return "TRUE" if v else "FALSE"
    if isinstance(v, int):
        return str(v) if v >= 0 else f"({v})"
    if isinstance(v, str):
        return "'" + v.replace("'", "''") + "'"
    if v[0] == "q":
        f = float(v[1])
        assert Fraction(f) == v[1]
        s = repr(f)
        if "e" in s or "E" in s:
            s = f"{f:.10f}"
        return s if f >= 0 else f"({s})"
    if v[0] == "d":
        return "DATE '" + (datetime.date(1970, 1, 1) + datetime.timedelta(days=v[1])).isoformat() + "'"
    raise ValueError(v)

def zl(n):
    return f"({n})" if n < 0 else str(n)

def codepoints(s):
    return "[" + "; ".join(str(ord(c)) for c in s) + "]"

def val_coq(v):
    if v is None:
        return "VNull"
    if isinstance(v, bool):
        return "(VBool true)" if v else "(VBool false)"
    if isinstance(v, int):
        return f"(VInt {zl(v)})"
    if isinstance(v, str):
        return f"(VStr {codepoints(v)})"
    if v[0] == "q":
        q = Fraction(v[1])
        return f"(VDbl ({zl(q.numerator)} # {q.denominator}))"
    if v[0] == "d":
        return f"(VDate {zl(v[1])})"
    raise ValueError(v)

def val_cell(v):
    """JSON cell for the harness table spec."""
    if v is None or isinstance(v, (bool, int, str)):
        return v
    if v[0] == "q":
        return ["f", str(struct.unpack("<Q", struct.pack("<d", float(v[1])))[0])]
    if v[0] == "d":
        return ["d", v[1]]
    raise ValueError(v)

def cell_val(c):
    """Harness result cell -> value (exact)."""
    if c is None or isinstance(c, (bool, int, str)):
        return c
    if c[0] == "f":
        f = struct.unpack("<d", struct.pack("<Q", int(c[1])))[0]
        if f != f or f in (float("inf"), float("-inf")):
            return ("nonfinite", repr(f))
        return ("q", Fraction(f))
    if c[0] == "d":
        return ("d", c[1])
    return ("other", c)

def val_key(v):
    """Total order key for canonical sorting of rows."""
    if v is None:
        return (0, 0)
    if isinstance(v, bool):
        return (1, int(v))
    if isinstance(v, int):
        return (2, Fraction(v))
    if isinstance(v, str):
        return (3, v)
    if v[0] == "q":
        return (2, v[1])
    if v[0] == "d":
        return (4, v[1])
    return (9, repr(v))

def vals_equal(a, b):
    ka, kb = val_key(a), val_key(b)
    return ka == kb

# ---------------- expressions ----------------
CMP_SQL = {"CEq": "=", "CNe": "<>", "CLt": "<", "CLe": "<=", "CGt": ">", "CGe": ">="}
AR_SQL = {"AAdd": "+", "ASub": "-", "AMul": "*"}

def e_sql(e):
    t = e[0]
    if t == "col":
        return e[2]
    if t == "lit":
        return val_sql(e[1])
    if t == "cmp":
        return f"({e_sql(e[2])} {CMP_SQL[e[1]]} {e_sql(e[3])})"
    if t == "and":
        return f"({e_sql(e[1])} AND {e_sql(e[2])})"
    if t == "or":
        return f"({e_sql(e[1])} OR {e_sql(e[2])})"
    if t == "not":
        return f"(NOT {e_sql(e[1])})"
    if t == "isnull":
        return f"({e_sql(e[1])} IS NULL)"
    if t == "isnotnull":
        return f"({e_sql(e[1])} IS NOT NULL)"
    if t == "in":
        return f"({e_sql(e[1])} {'NOT ' if e[3] else ''}IN ({', '.join(e_sql(x) for x in e[2])}))"
    if t == "between":
        return f"({e_sql(e[1])} {'NOT ' if e[4] else ''}BETWEEN {e_sql(e[2])} AND {e_sql(e[3])})"
    if t == "like":
        return f"({e_sql(e[1])} {'NOT ' if e[3] else ''}LIKE {e_sql(e[2])})"
    if t == "arith":
        return f"({e_sql(e[2])} {AR_SQL[e[1]]} {e_sql(e[3])})"
    if t == "neg":
        return f"(-{e_sql(e[1])})"
    if t == "case":
        s = "CASE " + " ".join(f"WHEN {e_sql(c)} THEN {e_sql(v)}" for c, v in e[1])
        if e[2] is not None:
            s += f" ELSE {e_sql(e[2])}"
        return "(" + s + " END)"
    if t == "coalesce":
        return "COALESCE(" + ", ".join(e_sql(x) for x in e[1]) + ")"
    raise ValueError(e)

def bl(b):
    return "true" if b else "false"

def e_coq(e):
    t = e[0]
    if t == "col":
        return f"(ECol {e[1]}%nat)"
    if t == "lit":
        return f"(ELit {val_coq(e[1])})"
    if t == "cmp":
        return f"(ECmp {e[1]} {e_coq(e[2])} {e_coq(e[3])})"
    if t == "and":
        return f"(EAnd {e_coq(e[1])} {e_coq(e[2])})"
    if t == "or":
        return f"(EOr {e_coq(e[1])} {e_coq(e[2])})"
    if t == "not":
        return f"(ENot {e_coq(e[1])})"
    if t == "isnull":
        return f"(EIsNull {e_coq(e[1])})"
    if t == "isnotnull":
        return f"(EIsNotNull {e_coq(e[1])})"
    if t == "in":
        return f"(EIn {e_coq(e[1])} [{'; '.join(e_coq(x) for x in e[2])}] {bl(e[3])})"
    if t == "between":
        return f"(EBetween {e_coq(e[1])} {e_coq(e[2])} {e_coq(e[3])} {bl(e[4])})"
    if t == "like":
        return f"(ELike {e_coq(e[1])} {e_coq(e[2])} {bl(e[3])})"
    if t == "arith":
        return f"(EArith {e[1]} {e_coq(e[2])} {e_coq(e[3])})"
    if t == "neg":
        return f"(ENeg {e_coq(e[1])})"
    if t == "case":
        ws = "; ".join(f"({e_coq(c)}, {e_coq(v)})" for c, v in e[1])
        els = "None" if e[2] is None else f"(Some {e_coq(e[2])})"
        return f"(ECase [{ws}] {els})"
    if t == "coalesce":
        return f"(ECoalesce [{'; '.join(e_coq(x) for x in e[1])}])"
    raise ValueError(e)

def e_size(e):
    n = 1
    for x in e[1:]:
        if isinstance(x, tuple) and x and isinstance(x[0], str) and x[0] in ("col", "lit", "cmp", "and", "or", "not", "isnull",
                "isnotnull", "in", "between", "like", "arith", "neg", "case", "coalesce"):
            n += e_size(x)
        elif isinstance(x, list):
            for y in x:
                if isinstance(y, tuple) and y and isinstance(y[0], str):
                    n += e_size(y)
                elif isinstance(y, tuple):
                    n += sum(e_size(z) for z in y)
    return n

def row_coq(r):
    return "[" + "; ".join(val_coq(v) for v in r) + "]"

# Coq-side encoding of a value as list Z, printed by vm_compute and parsed back:
#   [0] null | [1;n] int | [2;num;den] double | [3;cps...] str | [4;b] bool | [5;d] date | [9] error
ENC_DEF = """Definition enc (v : value) : list Z :=
  match v with
  | VNull => [0] | VInt z => [1; z] | VDbl q => [2; Qnum (Qred q); Zpos (Qden (Qred q))]
  | VStr s => 3 :: s | VBool b => [4; if b then 1 else 0] | VDate d => [5; d] | VErr => [9]
  end."""

def dec(l):
    t = l[0]
    if t == 0:
        return None
    if t == 1:
        return l[1]
    if t == 2:
        return ("q", Fraction(l[1], l[2]))
    if t == 3:
        return "".join(chr(c) for c in l[1:])
    if t == 4:
        return bool(l[1])
    if t == 5:
        return ("d", l[1])
    return ("err",)
