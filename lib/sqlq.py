"""Relational query ASTs (python tuples) rendered to SQL text and to Coq `query` terms
(coq/theories/Sql/Query.v). Columns of every intermediate relation are named c0..c{w-1}.
  ("table", idx, name, w) | ("values", w, [[expr]]) | ("filter", q, e) | ("project", q, [e])
  ("join", jt, l, r, on) | ("agg", q, [key e], [(fn, e)]) | ("distinct", q)
  ("setop", op, all, l, r) | ("sort", q, [(e, desc, nulls_first|None)]) | ("limit", q, skip, fetch|None)
Expressions use sqlgen tuples with ("col", i, _) indexing the input relation (for joins: l ++ r)."""
import sqlgen
from sqlgen import e_coq

def width(q):
    t = q[0]
    if t == "table":
        return q[3]
    if t == "values":
        return q[1]
    if t in ("filter", "distinct", "sort", "limit"):
        return width(q[1])
    if t == "project":
        return len(q[2])
    if t == "join":
        return width(q[2]) if q[1] in ("JSemi", "JAnti") else width(q[2]) + width(q[3])
    if t == "agg":
        return len(q[2]) + len(q[3])
    if t == "setop":
        return width(q[3])
    raise ValueError(q)

def rename(e, f):
    """copy of expression e with every column name replaced by f(index)"""
    if not isinstance(e, tuple):
        return e
    if e and e[0] == "col":
        return ("col", e[1], f(e[1]))
    if e and e[0] == "lit":
        return e
    out = []
    for x in e:
        if isinstance(x, tuple):
            out.append(rename(x, f))
        elif isinstance(x, list):
            out.append([tuple(rename(z, f) for z in y) if (isinstance(y, tuple) and y and not isinstance(y[0], str)) else rename(y, f)
                        for y in x])
        else:
            out.append(x)
    return tuple(out)

def esql(e, f):
    return sqlgen.e_sql(rename(e, f))

JT_SQL = {"JInner": "JOIN", "JLeft": "LEFT JOIN", "JRight": "RIGHT JOIN", "JFull": "FULL OUTER JOIN", "JCross": "CROSS JOIN"}
FN_SQL = {"ACountStar": "COUNT(*)", "ACount": "COUNT({})", "ASum": "SUM({})", "AAvg": "AVG({})", "AMin": "MIN({})",
          "AMax": "MAX({})", "ACountDistinct": "COUNT(DISTINCT {})"}

_ctr = [0]
def fresh(p):
    _ctr[0] += 1
    return f"{p}{_ctr[0]}"

def cols(w, prefix=""):
    return ", ".join(f"{prefix}c{i}" for i in range(w))

def to_sql(q):
    """A SELECT statement whose output columns are c0..c{w-1} (VALUES at top level is rendered bare)."""
    t = q[0]
    if t == "table":
        return f"SELECT {cols(q[3])} FROM {q[2]}"
    if t == "values":
        return "VALUES " + ", ".join("(" + ", ".join(sqlgen.e_sql(e) for e in r) + ")" for r in q[2])
    if t == "filter":
        src, f = from_clause(q[1])
        return f"SELECT {', '.join(f(i) + ' AS c' + str(i) for i in range(width(q)))} FROM {src} WHERE {esql(q[2], f)}"
    if t == "project":
        src, f = from_clause(q[1])
        return "SELECT " + ", ".join(f"{esql(e, f)} AS c{i}" for i, e in enumerate(q[2])) + f" FROM {src}"
    if t == "join":
        src, f = from_clause(q)
        return f"SELECT {', '.join(f(i) + ' AS c' + str(i) for i in range(width(q)))} FROM {src}"
    if t == "agg":
        src, f = from_clause(q[1])
        sel = [f"{esql(k, f)} AS c{i}" for i, k in enumerate(q[2])]
        for j, (fn, e) in enumerate(q[3]):
            sel.append(FN_SQL[fn].format(esql(e, f)) + f" AS c{len(q[2]) + j}")
        s = f"SELECT {', '.join(sel)} FROM {src}"
        if q[2]:
            s += " GROUP BY " + ", ".join(esql(k, f) for k in q[2])
        return s
    if t == "distinct":
        src, f = from_clause(q[1])
        return f"SELECT DISTINCT {', '.join(f(i) + ' AS c' + str(i) for i in range(width(q)))} FROM {src}"
    if t == "setop":
        op = {"SUnion": "UNION", "SIntersect": "INTERSECT", "SExcept": "EXCEPT"}[q[1]] + (" ALL" if q[2] else "")
        return f"{wrap_select(q[3])} {op} {wrap_select(q[4])}"
    if t == "sort":
        src, f = from_clause(q[1])
        keys = []
        for e, desc, nf in q[2]:
            k = esql(e, f) + (" DESC" if desc else " ASC")
            if nf is not None:
                k += " NULLS FIRST" if nf else " NULLS LAST"
            keys.append(k)
        return f"SELECT {', '.join(f(i) + ' AS c' + str(i) for i in range(width(q)))} FROM {src} ORDER BY {', '.join(keys)}"
    if t == "limit":
        inner = q[1]
        base = to_sql(inner) if inner[0] == "sort" else wrap_select(inner)
        s = base
        if q[3] is not None:
            s += f" LIMIT {q[3]}"
        if q[2]:
            s += f" OFFSET {q[2]}"
        return s
    raise ValueError(q)

def wrap_select(q):
    """SELECT over q usable as an operand of a set operation / LIMIT."""
    if q[0] in ("table", "filter", "project", "agg", "distinct", "join"):
        return to_sql(q)
    a = fresh("w")
    if q[0] == "values":
        return f"SELECT * FROM ({to_sql(q)}) AS {a}"
    return f"SELECT {cols(width(q))} FROM ({to_sql(q)}) AS {a}"

def from_clause(q):
    """FROM-clause text for q and a function naming its i-th column inside that scope."""
    t = q[0]
    if t == "table":
        a = fresh("t")
        return f"{q[2]} AS {a}", (lambda i, a=a: f"{a}.c{i}")
    if t == "join" and q[1] in JT_SQL:
        ls, lf = from_clause(q[2])
        rs, rf = from_clause(q[3])
        wl = width(q[2])
        f = lambda i, lf=lf, rf=rf, wl=wl: lf(i) if i < wl else rf(i - wl)
        if q[1] == "JCross":
            return f"{ls} CROSS JOIN {rs}", f
        return f"{ls} {JT_SQL[q[1]]} {rs} ON {esql(q[4], f)}", f
    a = fresh("s")
    if t == "values":
        return f"({to_sql(q)}) AS {a}", (lambda i, a=a: f"{a}.column{i}")
    return f"({to_sql(q)}) AS {a}", (lambda i, a=a: f"{a}.c{i}")

def bl(b):
    return "true" if b else "false"

def to_coq(q):
    t = q[0]
    if t == "table":
        return f"(QTable {q[1]}%nat {q[3]}%nat)"
    if t == "values":
        rows = "; ".join("[" + "; ".join(e_coq(e) for e in r) + "]" for r in q[2])
        return f"(QValues {q[1]}%nat [{rows}])"
    if t == "filter":
        return f"(QFilter {to_coq(q[1])} {e_coq(q[2])})"
    if t == "project":
        return f"(QProject {to_coq(q[1])} [{'; '.join(e_coq(e) for e in q[2])}])"
    if t == "join":
        return f"(QJoin {q[1]} {to_coq(q[2])} {to_coq(q[3])} {e_coq(q[4])})"
    if t == "agg":
        aggs = "; ".join(f"({fn}, {e_coq(e)})" for fn, e in q[3])
        return f"(QAgg {to_coq(q[1])} [{'; '.join(e_coq(k) for k in q[2])}] [{aggs}])"
    if t == "distinct":
        return f"(QDistinct {to_coq(q[1])})"
    if t == "setop":
        return f"(QSetOp {q[1]} {bl(q[2])} {to_coq(q[3])} {to_coq(q[4])})"
    if t == "sort":
        ks = "; ".join(f"(mkKey {e_coq(e)} {bl(d)} {bl(bool(nf))})" for e, d, nf in q[2])
        return f"(QSort {to_coq(q[1])} [{ks}])"
    if t == "limit":
        f = "None" if q[3] is None else f"(Some {q[3]}%nat)"
        return f"(QLimit {to_coq(q[1])} {q[2]}%nat {f})"
    raise ValueError(q)

def db_coq(tables):
    """tables: list of row lists (python values)"""
    return "[" + ";\n ".join("[" + "; ".join(sqlgen.row_coq(r) for r in rows) + "]" for rows in tables) + "]"

# Evaluate queries in Coq: returns per query (eng_rows, sql_rows, known) with rows decoded to python values
EVAL_DEF = sqlgen.ENC_DEF + """
Definition encrel (r : rel) : list (list (list Z)) := map (map enc) r.
Definition run3 (db : list rel) (q : query) :=
  (encrel (qeval eng_qsem db q), encrel (qeval sql_qsem db q), if known_q db q then 1 else 0)."""

def canon(rows):
    return sorted([tuple(sqlgen.val_key(v) for v in r) for r in rows])

def rows_from_impl(res):
    return [[sqlgen.cell_val(c) for c in r] for r in res["rows"]]

def close(a, b):
    """cell equality: exact, except doubles that came from a division (AVG) may differ in the last bits"""
    ka, kb = sqlgen.val_key(a), sqlgen.val_key(b)
    if ka == kb:
        return True
    if ka[0] == 2 and kb[0] == 2:
        x, y = ka[1], kb[1]
        return abs(x - y) <= abs(y) * 1e-12
    return False

def bag_equal(a, b):
    """multiset equality of row lists with `close` on cells"""
    if len(a) != len(b):
        return False
    ca, cb = sorted(a, key=lambda r: tuple(sqlgen.val_key(v) for v in r)), sorted(b, key=lambda r: tuple(sqlgen.val_key(v) for v in r))
    if all(len(x) == len(y) and all(close(u, v) for u, v in zip(x, y)) for x, y in zip(ca, cb)):
        return True
    # tolerant fallback: greedy matching
    rest = list(cb)
    for x in ca:
        for j, y in enumerate(rest):
            if len(x) == len(y) and all(close(u, v) for u, v in zip(x, y)):
                del rest[j]
                break
        else:
            return False
    return True
