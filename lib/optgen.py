"""Statement generator shared by the optimizer properties (C03, C31).
Relational query ASTs are those of sqlq.py (rendered to Coq by sqlq.to_coq); the SQL renderer here differs in one point:
base tables have their OWN column names (ta: a0.., tb: b0.., tc: c0..), because the optimizer's statistics rules look
columns up by bare name. Derived relations name their columns c0..c{w-1} (as in sqlq), so a base table whose columns
are called c0.. makes every derived column "reuse a base column's name".
   extra node: ("semi", anti, l, r, on)  -> WHERE [NOT] EXISTS (SELECT 1 FROM r WHERE on); Coq: QJoin JSemi/JAnti l r on
"""
import sqlgen, sqlq
from sqlq import rename, esql, JT_SQL, FN_SQL, width as _w0

def width(q):
    if q[0] == "semi":
        return width(q[2])
    if q[0] in ("filter", "distinct", "sort", "limit"):
        return width(q[1])
    if q[0] == "join":
        return width(q[2]) if q[1] in ("JSemi", "JAnti") else width(q[2]) + width(q[3])
    if q[0] == "setop":
        return width(q[3])
    return _w0(q)

class Renderer:
    def __init__(self, colnames):
        self.colnames = colnames      # table name -> [column names]
        self.n = 0

    def fresh(self, p):
        self.n += 1
        return f"{p}{self.n}"

    def base(self, q, i):
        return self.colnames[q[2]][i]

    def to_sql(self, q):
        t = q[0]
        if t == "table":
            return "SELECT " + ", ".join(f"{self.base(q, i)} AS c{i}" for i in range(q[3])) + f" FROM {q[2]}"
        if t == "values":
            return sqlq.to_sql(q)
        if t == "filter":
            src, f = self.from_clause(q[1])
            return f"SELECT {', '.join(f(i) + ' AS c' + str(i) for i in range(width(q)))} FROM {src} WHERE {esql(q[2], f)}"
        if t == "semi":
            src, f = self.from_clause(q[2])
            rs, rf = self.from_clause(q[3])
            wl = width(q[2])
            g = lambda i: f(i) if i < wl else rf(i - wl)
            ex = f"EXISTS (SELECT 1 FROM {rs} WHERE {esql(q[4], g)})"
            if q[1]:
                ex = "NOT " + ex
            return f"SELECT {', '.join(f(i) + ' AS c' + str(i) for i in range(wl))} FROM {src} WHERE {ex}"
        if t == "project":
            src, f = self.from_clause(q[1])
            return "SELECT " + ", ".join(f"{esql(e, f)} AS c{i}" for i, e in enumerate(q[2])) + f" FROM {src}"
        if t == "join":
            src, f = self.from_clause(q)
            return f"SELECT {', '.join(f(i) + ' AS c' + str(i) for i in range(width(q)))} FROM {src}"
        if t == "agg":
            src, f = self.from_clause(q[1])
            sel = [f"{esql(k, f)} AS c{i}" for i, k in enumerate(q[2])]
            for j, (fn, e) in enumerate(q[3]):
                sel.append(FN_SQL[fn].format(esql(e, f)) + f" AS c{len(q[2]) + j}")
            s = f"SELECT {', '.join(sel)} FROM {src}"
            if q[2]:
                s += " GROUP BY " + ", ".join(esql(k, f) for k in q[2])
            return s
        if t == "distinct":
            src, f = self.from_clause(q[1])
            return f"SELECT DISTINCT {', '.join(f(i) + ' AS c' + str(i) for i in range(width(q)))} FROM {src}"
        if t == "setop":
            op = {"SUnion": "UNION", "SIntersect": "INTERSECT", "SExcept": "EXCEPT"}[q[1]] + (" ALL" if q[2] else "")
            return f"{self.wrap_select(q[3])} {op} {self.wrap_select(q[4])}"
        if t == "sort":
            src, f = self.from_clause(q[1])
            keys = []
            for e, desc, nf in q[2]:
                k = esql(e, f) + (" DESC" if desc else " ASC")
                if nf is not None:
                    k += " NULLS FIRST" if nf else " NULLS LAST"
                keys.append(k)
            return f"SELECT {', '.join(f(i) + ' AS c' + str(i) for i in range(width(q)))} FROM {src} ORDER BY {', '.join(keys)}"
        if t == "limit":
            inner = q[1]
            s = self.to_sql(inner) if inner[0] == "sort" else self.wrap_select(inner)
            if q[3] is not None:
                s += f" LIMIT {q[3]}"
            if q[2]:
                s += f" OFFSET {q[2]}"
            return s
        raise ValueError(q)

    def wrap_select(self, q):
        if q[0] in ("table", "filter", "project", "agg", "distinct", "join", "semi"):
            return self.to_sql(q)
        a = self.fresh("w")
        if q[0] == "values":
            return f"SELECT * FROM ({self.to_sql(q)}) AS {a}"
        return f"SELECT {sqlq.cols(width(q))} FROM ({self.to_sql(q)}) AS {a}"

    def from_clause(self, q):
        t = q[0]
        if t == "table":
            a = self.fresh("t")
            return f"{q[2]} AS {a}", (lambda i, a=a, q=q: f"{a}.{self.base(q, i)}")
        if t == "join" and q[1] in JT_SQL:
            ls, lf = self.from_clause(q[2])
            rs, rf = self.from_clause(q[3])
            wl = width(q[2])
            f = lambda i, lf=lf, rf=rf, wl=wl: lf(i) if i < wl else rf(i - wl)
            if q[1] == "JCross":
                return f"{ls} CROSS JOIN {rs}", f
            return f"{ls} {JT_SQL[q[1]]} {rs} ON {esql(q[4], f)}", f
        a = self.fresh("s")
        if t == "values":
            return f"({self.to_sql(q)}) AS {a}", (lambda i, a=a: f"{a}.column{i}")
        return f"({self.to_sql(q)}) AS {a}", (lambda i, a=a: f"{a}.c{i}")

def to_coq(q):
    """sqlq.to_coq extended by the semi node"""
    if q[0] == "semi":
        return f"(QJoin {'JAnti' if q[1] else 'JSemi'} {to_coq(q[2])} {to_coq(q[3])} {sqlgen.e_coq(q[4])})"
    t = q[0]
    if t in ("table", "values"):
        return sqlq.to_coq(q)
    if t == "filter":
        return f"(QFilter {to_coq(q[1])} {sqlgen.e_coq(q[2])})"
    if t == "project":
        return f"(QProject {to_coq(q[1])} [{'; '.join(sqlgen.e_coq(e) for e in q[2])}])"
    if t == "join":
        return f"(QJoin {q[1]} {to_coq(q[2])} {to_coq(q[3])} {sqlgen.e_coq(q[4])})"
    if t == "agg":
        aggs = "; ".join(f"({fn}, {sqlgen.e_coq(e)})" for fn, e in q[3])
        return f"(QAgg {to_coq(q[1])} [{'; '.join(sqlgen.e_coq(k) for k in q[2])}] [{aggs}])"
    if t == "distinct":
        return f"(QDistinct {to_coq(q[1])})"
    if t == "setop":
        return f"(QSetOp {q[1]} {sqlq.bl(q[2])} {to_coq(q[3])} {to_coq(q[4])})"
    if t == "sort":
        ks = "; ".join(f"(mkKey {sqlgen.e_coq(e)} {sqlq.bl(d)} {sqlq.bl(bool(nf))})" for e, d, nf in q[2])
        return f"(QSort {to_coq(q[1])} [{ks}])"
    if t == "limit":
        f = "None" if q[3] is None else f"(Some {q[3]}%nat)"
        return f"(QLimit {to_coq(q[1])} {q[2]}%nat {f})"
    raise ValueError(q)

# ---------------------------------------------------------------- data
def col(i):
    return ("col", i, f"c{i}")

def lit(v):
    return ("lit", v)

PROFILES = ["pseudo_unique", "pseudo_unique", "dense_dup", "unique", "nullable", "negative", "big31", "big62", "sparse"]

def gen_int_column(rng, n, profile):
    """n integer cells with the given statistical shape"""
    if n == 0:
        return []
    if profile == "pseudo_unique":      # range >= n, duplicates, no NULLs: "unique" by the estimate, not in fact
        base = rng.choice([0, 1, 5, 100])
        vals = [base + rng.randrange(0, n + 2) for _ in range(n)]
        if n >= 3:
            a, b, c = rng.sample(range(n), 3)
            vals[b] = vals[a]                                     # a duplicate
            vals[c] = min(vals) + n + rng.randint(0, 3)           # a wide range
        return vals
    if profile == "dense_dup":
        return [rng.choice([0, 1, 2, 3]) for _ in range(n)]
    if profile == "unique":
        vals = rng.sample(range(0, 4 * n + 4), n)
        return vals
    if profile == "nullable":
        return [None if rng.random() < 0.3 else rng.choice([0, 1, 2, 3, 7]) for _ in range(n)]
    if profile == "negative":
        return [rng.choice([-3, -1, 0, 1, 2, 5]) for _ in range(n)]
    if profile == "big31":
        return [2 ** 31 - rng.choice([1, 2, 3, 4, 9]) + rng.choice([0, 0, 5]) for _ in range(n)]
    if profile == "big62":
        return [2 ** 62 - rng.choice([1, 2, 3, 4, 9]) for _ in range(n)]
    if profile == "sparse":
        return [rng.choice([0, 1000, 5000, 10 ** 6, 7]) for _ in range(n)]
    raise ValueError(profile)

def gen_payload(rng, n, ty):
    if ty == "str":
        return [rng.choice(["a", "b", "ab", "", "x"]) if rng.random() > 0.15 else None for _ in range(n)]
    if ty == "date":
        return [("d", rng.choice([0, 1, 365, 10957])) if rng.random() > 0.15 else None for _ in range(n)]
    return [rng.choice([0, 1, 2, 5, 10, -4]) if rng.random() > 0.15 else None for _ in range(n)]

def gen_table(rng, name, prefix, storage=None, nrows=None, profiles=None, payload=None, ncols=4):
    """ncols columns: the first three integer key candidates with adversarial shapes, then payload columns"""
    storage = storage or rng.choice(["memory", "parquet", "parquet", "parquet"])
    n = rng.choice(([0] if storage == "memory" else []) + [1, 2, 3, 4, 6, 9, 14]) if nrows is None else nrows
    profiles = profiles or [rng.choice(PROFILES) for _ in range(3)]
    types, cols_ = [], []
    for p in profiles:
        # mostly BIGINT, some INTEGER key candidates (mixed-width equi-joins; repaired by fix b5b0b0b)
        types.append("i64" if p in ("big31", "big62") or rng.random() < 0.75 else "i32")
        cols_.append(gen_int_column(rng, n, p))
    for _ in range(ncols - len(profiles)):
        ty = payload or rng.choice(["i64", "i32", "str", "date"])
        types.append(ty)
        cols_.append(gen_payload(rng, n, ty))
    rows = [[c[i] for c in cols_] for i in range(n)]
    t = {"name": name, "types": types, "rows": rows, "colnames": [f"{prefix}{i}" for i in range(len(types))],
         "profiles": profiles, "batch_sizes": None}
    if storage == "parquet":
        pq = {"row_group": rng.choice([1, 2, 3, 1024])}
        if n >= 2 and rng.random() < 0.3:
            pq["files"] = [max(1, n // 2)]
        t["parquet"] = pq
    elif n > 1 and rng.random() < 0.5:
        k = rng.randint(1, n - 1)
        t["batch_sizes"] = [k]
    return t

def table_spec(t):
    spec = {"name": t["name"], "cols": [[cn, ty] for cn, ty in zip(t["colnames"], t["types"])],
            "rows": [[sqlgen.val_cell(v) for v in r] for r in t["rows"]]}
    if t.get("batch_sizes"):
        spec["batch_sizes"] = t["batch_sizes"]
    if t.get("parquet"):
        spec["parquet"] = t["parquet"]
    return spec

def tbl(idx, t):
    return ("table", idx, t["name"], len(t["types"]))

def small_cols(t):
    """integer columns whose values are small enough for SUM / arithmetic to stay far from i64 overflow"""
    out = [i for i, ty in enumerate(t["types"]) if ty in ("i64", "i32")
           and all(v is None or abs(v) < 2 ** 40 for v in (r[i] for r in t["rows"]))]
    return out

# ---------------------------------------------------------------- predicates
def lit_for(rng, t, ci):
    vals = [r[ci] for r in t["rows"] if r[ci] is not None]
    if vals and rng.random() < 0.7:
        return lit(rng.choice(vals))
    ty = t["types"][ci]
    if ty == "str":
        return lit(rng.choice(["a", "b", "zz"]))
    if ty == "date":
        return lit(("d", rng.choice([0, 365])))
    return lit(rng.choice([0, 1, 2, 5]))

def gen_atom(rng, t, offset=0):
    ci = rng.randrange(len(t["types"]))
    ty = t["types"][ci]
    k = rng.random()
    if ty in ("i64", "i32") and ci not in small_cols(t):
        # integers beyond 2^53 are compared through doubles by the engine (a recorded C05 class): no literals against them
        return (rng.choice(["isnull", "isnotnull"]), col(offset + ci))
    if k < 0.12:
        return (rng.choice(["isnull", "isnotnull"]), col(offset + ci))
    same = [j for j, x in enumerate(t["types"]) if j != ci and (x == ty or {x, ty} <= {"i64", "i32"})]
    if same and k < 0.25:
        return ("cmp", rng.choice(["CEq", "CNe", "CLt", "CGe"]), col(offset + ci), col(offset + rng.choice(same)))
    if k < 0.35 and ty in ("i64", "i32"):
        return ("in", col(offset + ci), [lit_for(rng, t, ci) for _ in range(rng.randint(1, 3))], rng.random() < 0.2)
    if k < 0.42 and ty in ("i64", "i32"):
        return ("between", col(offset + ci), lit_for(rng, t, ci), lit_for(rng, t, ci), False)
    return ("cmp", rng.choice(["CEq", "CNe", "CLt", "CLe", "CGt", "CGe"]), col(offset + ci), lit_for(rng, t, ci))

def gen_pred(rng, t, depth=2, offset=0, consts=True):
    """boolean predicate with constant operands (x OR TRUE, x AND FALSE, 1 = 1, NOT ...) for the folding rule"""
    if depth == 0 or rng.random() < 0.3:
        return gen_atom(rng, t, offset)
    k = rng.random()
    if consts and k < 0.18:
        c = rng.choice([lit(True), lit(False), ("cmp", "CEq", lit(1), lit(1)), ("cmp", "CLt", lit(2), lit(1)),
                        ("cmp", "CEq", ("arith", "AAdd", lit(1), lit(1)), lit(2))])
        x = gen_pred(rng, t, depth - 1, offset, consts)
        op = rng.choice(["and", "or"])
        return (op, x, c) if rng.random() < 0.6 else (op, c, x)
    if k < 0.3:
        return ("not", gen_pred(rng, t, depth - 1, offset, consts))
    op = "and" if k < 0.65 else "or"
    return (op, gen_pred(rng, t, depth - 1, offset, consts), gen_pred(rng, t, depth - 1, offset, consts))

def gen_or_chain(rng, t, offset=0):
    """(x = v1 AND y = w1) OR (x = v2 AND y = w2) ... : the shape DeriveOrPredicates turns into IN-lists"""
    ints = [j for j, x in enumerate(t["types"]) if x in ("i64", "i32")]
    a = rng.choice(ints)
    b = rng.choice([j for j in range(len(t["types"])) if j != a])
    ds = []
    for _ in range(rng.randint(2, 3)):
        p1 = ("cmp", "CEq", col(offset + a), lit_for(rng, t, a))
        if rng.random() < 0.3:
            p1 = ("cmp", "CEq", p1[3], p1[2])
        p2 = ("cmp", "CEq", col(offset + b), lit_for(rng, t, b)) if rng.random() < 0.8 else gen_atom(rng, t, offset)
        ds.append(("and", p1, p2))
    e = ds[0]
    for d in ds[1:]:
        e = ("or", e, d)
    return e

# ---------------------------------------------------------------- general statements
def eq_keys(rng, lt, rt, wl, nk):
    """nk equalities between integer columns of the two tables (columns 0..2 are integers)"""
    conj = None
    for i in rng.sample(range(3), nk):
        j = rng.randrange(3)
        e = ("cmp", "CEq", col(i), col(wl + j))
        conj = e if conj is None else ("and", conj, e)
    return conj

def gen_general(rng, tables):
    """one random statement over the group's tables: (ast, kind). Multi-key GROUP BY and LEFT JOIN + COUNT directly over
    base tables are left to the statistics families (they need their own prediction); here they only occur over derived
    inputs."""
    a = rng.randrange(len(tables))
    b = rng.choice([i for i in range(len(tables)) if i != a]) if len(tables) > 1 else a
    ta, tb = tables[a], tables[b]
    wa = len(ta["types"])
    k = rng.choice(["filter", "filter", "filter_or", "project", "join", "join", "join_where", "agg1", "agg_derived", "having",
                    "distinct", "semi", "semi_join", "sort_limit", "union", "join3"])
    if k == "filter":
        return ("filter", tbl(a, ta), gen_pred(rng, ta, rng.randint(1, 3))), k
    if k == "filter_or":
        p = gen_or_chain(rng, ta)
        if rng.random() < 0.4:
            p = ("and", p, gen_atom(rng, ta))
        return ("filter", tbl(a, ta), p), k
    if k == "project":
        sc = small_cols(ta) or [0]
        es = [col(rng.randrange(wa)), ("arith", rng.choice(["AAdd", "ASub", "AMul"]), col(rng.choice(sc)), lit(rng.choice([1, 2, 4]))),
              gen_pred(rng, ta, 2), ("case", [(gen_atom(rng, ta), lit(1))], lit(0) if rng.random() < 0.5 else None)]
        q = ("project", tbl(a, ta), es[:rng.randint(2, 4)])
        if rng.random() < 0.4:
            q = ("filter", q, ("cmp", rng.choice(["CGt", "CLe"]), col(1), lit(rng.choice([1, 3, 8]))))
        return q, k
    if k in ("join", "join_where", "join3"):
        jt = rng.choice(["JInner", "JInner", "JInner", "JLeft", "JRight", "JFull"])
        nk = rng.choice([1, 1, 2])
        on = eq_keys(rng, ta, tb, wa, nk)
        if rng.random() < 0.25:
            on = ("and", on, gen_atom(rng, ta))
        q = ("join", jt, tbl(a, ta), tbl(b, tb), on)
        kind = f"{k}-{jt}-{nk}key"
        if k == "join3" and len(tables) > 2:
            c = [i for i in range(len(tables)) if i not in (a, b)][0]
            w2 = wa + len(tb["types"])
            q = ("join", rng.choice(["JInner", "JInner", "JLeft"]), q, tbl(c, tables[c]),
                 ("cmp", "CEq", col(rng.randrange(3)), col(w2 + rng.randrange(3))))
        if k == "join_where" or rng.random() < 0.3:
            side = rng.random() < 0.5
            p = gen_pred(rng, ta, 1) if side else gen_pred(rng, tb, 1, offset=wa)
            if rng.random() < 0.3:
                p = ("and", p, gen_or_chain(rng, ta))
            q = ("filter", q, p)
        return q, kind
    if k == "agg1":
        key = rng.randrange(wa)
        sc = small_cols(ta)
        aggs = [(rng.choice(["ASum", "ACount", "AMin", "AMax"]) if sc else rng.choice(["ACount", "AMin", "AMax"]),
                 col(rng.choice(sc or [0, 1, 2]))), ("ACountStar", lit(None))]
        src = tbl(a, ta) if rng.random() < 0.6 else ("filter", tbl(a, ta), gen_pred(rng, ta, 1))
        return ("agg", src, [col(key)], aggs[:rng.randint(1, 2)]), k
    if k == "agg_derived":
        sc = small_cols(ta)
        c1 = rng.choice(sc) if sc else None
        src = ("project", tbl(a, ta), [col(0), ("arith", "AAdd", col(c1), lit(rng.choice([0, 1, 4]))) if c1 is not None else col(1), col(2)])
        if rng.random() < 0.5:
            src = ("filter", src, ("cmp", "CGe", col(0), lit(rng.choice([0, 1, 5]))))
        return ("agg", src, [col(0), col(1)], [(rng.choice(["ASum", "AMin", "ACount"]) if 2 in sc else "ACount", col(2))]), k
    if k == "having":
        sc = small_cols(ta)
        q = ("agg", tbl(a, ta), [col(rng.randrange(wa))], [("ACountStar", lit(None)), ("ASum", col(rng.choice(sc))) if sc else ("ACount", col(0))])
        return ("filter", q, ("cmp", rng.choice(["CGt", "CGe", "CEq"]), col(1), lit(rng.choice([1, 2])))), k
    if k == "distinct":
        q = ("project", tbl(a, ta), [col(i) for i in rng.sample(range(wa), rng.randint(1, 2))])
        if rng.random() < 0.4:
            q = ("filter", q, ("isnotnull", col(0)))
        return ("distinct", q), k
    if k in ("semi", "semi_join"):
        anti = rng.random() < 0.4
        left = tbl(a, ta)
        wl = wa
        if k == "semi_join" and len(tables) > 2:
            c = [i for i in range(len(tables)) if i not in (a, b)][0]
            left = ("join", "JInner", tbl(a, ta), tbl(c, tables[c]), ("cmp", "CEq", col(rng.randrange(3)), col(wa + rng.randrange(3))))
            wl = wa + len(tables[c]["types"])
        on = ("cmp", "CEq", col(rng.randrange(3)), col(wl + rng.randrange(3)))
        if rng.random() < 0.3:
            on = ("and", on, gen_atom(rng, tb, offset=wl))
        return ("semi", anti, left, tbl(b, tb), on), f"{k}-{'anti' if anti else 'semi'}"
    if k == "sort_limit":
        src = tbl(a, ta) if rng.random() < 0.5 else ("filter", tbl(a, ta), gen_pred(rng, ta, 1))
        keys = [(col(i), rng.random() < 0.5, rng.choice([True, False])) for i in range(wa)]   # total order on the rows
        q = ("sort", src, keys)
        if rng.random() < 0.6:
            q = ("limit", q, rng.choice([0, 0, 1]), rng.choice([1, 2, 5]))
        return q, k
    if k == "union":
        l = ("project", tbl(a, ta), [col(0), col(1)])
        r = ("project", tbl(b, tb), [col(0), col(1)])
        return ("setop", "SUnion", rng.random() < 0.5, l, r), k
    raise ValueError(k)

def gen_group_tables(rng):
    """three tables with distinct column prefixes; storage mixes memory and Parquet"""
    return [gen_table(rng, "ta", "a"), gen_table(rng, "tb", "b"), gen_table(rng, "tc", "e", storage=rng.choice(["memory", "parquet"]))]

def read_rule_list(repo=None):
    import vlib
    repo = repo or vlib.REPO
    """production rule names in order and max_iterations, re-read from the optimizer source"""
    import re
    src = open(repo + "/src/optimizer/mod.rs").read()
    m = re.search(r"pub fn new\(\) -> Self \{\s*Self \{\s*rules:\s*vec!\[(.*?)\],\s*max_iterations:\s*(\d+)", src, re.S)
    if not m:
        raise RuntimeError("cannot find the rule list in src/optimizer/mod.rs")
    body = re.sub(r"//[^\n]*", "", m.group(1))
    names = re.findall(r"Arc::new\(rules::(\w+)", body)
    final = re.findall(r'partition\(\|r\| r\.name\(\) != "(\w+)"\)', src)
    return names, int(m.group(2)), final
