"""Shared by the distributed-execution checks (C09, C45): flat SQL rendering of relational query ASTs (sqlq tuples) in
the form the distributed planner scatters, Parquet table generation, and the three-way comparison
  distributed run (harness bin c09: real execute_any_distributed, in-process transport)
  vs single node (ctx.sql) vs the Gallina reference (Sql/Query.v)."""
import vlib, sqlgen, sqlq, relgen, relcheck
from relgen import col, lit

# ---------------- tables ----------------
def gen_parquet_table(rng, name, types, nrows=None, null_p=0.25):
    t = relgen.gen_table(rng, name, types, nrows=nrows, null_p=null_p)
    n = len(t["rows"])
    nfiles = rng.choice([1, 1, 2, 3])
    files, left = [], n
    for _ in range(nfiles - 1):
        k = rng.randint(0, left); files.append(k); left -= k
    t["parquet"] = {"files": files, "row_group": rng.choice([1, 2, 3, 5, 100])}
    t["batch_sizes"] = None
    return t

def table_spec(t):
    return relcheck.table_spec(t["name"], t["types"], t["rows"], t.get("batch_sizes"), t.get("parquet"))

# ---------------- flat SQL ----------------
def _source(x):
    """FROM text, column namer, WHERE text|None for x = table | filter(table|join) | join(table, table)"""
    where = None
    if x[0] == "filter":
        inner = x[1]
        src, f, w0 = _source(inner)
        assert w0 is None
        return src, f, sqlq.esql(x[2], f)
    if x[0] == "table":
        name = x[2]
        return name, (lambda i, name=name: f"c{i}"), None
    if x[0] == "join":
        l, r = x[2], x[3]
        assert l[0] == "table" and r[0] == "table" and l[2] != r[2]
        wl = l[3]
        f = lambda i, l=l, r=r, wl=wl: f"{l[2]}.c{i}" if i < wl else f"{r[2]}.c{i - wl}"
        if x[1] == "JCross":
            return f"{l[2]} CROSS JOIN {r[2]}", f, None
        return f"{l[2]} {sqlq.JT_SQL[x[1]]} {r[2]} ON {sqlq.esql(x[4], f)}", f, None
    raise ValueError(x)

def _order_limit(q):
    skip, fetch, keys = 0, None, None
    if q[0] == "limit":
        skip, fetch, q = q[2], q[3], q[1]
    if q[0] == "sort":
        keys, q = q[2], q[1]
    return q, keys, skip, fetch

def _tail(keys, skip, fetch):
    s = ""
    if keys:
        ks = []
        for e, desc, nf in keys:
            assert e[0] == "col"
            k = f"o{e[1]}" + (" DESC" if desc else " ASC")
            if nf is not None:
                k += " NULLS FIRST" if nf else " NULLS LAST"
            ks.append(k)
        s += " ORDER BY " + ", ".join(ks)
    if fetch is not None:
        s += f" LIMIT {fetch}"
    if skip:
        s += f" OFFSET {skip}"
    return s

def flat_sql(q):
    """[limit] [sort] ( [distinct] project | [having-filter] agg ) over table / filter / join, as ONE SELECT."""
    if q[0] == "setop":
        op = {"SUnion": "UNION", "SIntersect": "INTERSECT", "SExcept": "EXCEPT"}[q[1]] + (" ALL" if q[2] else "")
        return f"{flat_sql(q[3])} {op} {flat_sql(q[4])}"
    body, keys, skip, fetch = _order_limit(q)
    distinct = False
    if body[0] == "distinct":
        distinct, body = True, body[1]
    having = None
    if body[0] == "filter" and body[1][0] == "agg":
        having, body = body[2], body[1]
    if body[0] == "agg":
        src, f, where = _source(body[1])
        ktxt = [sqlq.esql(k, f) for k in body[2]]
        atxt = [sqlq.FN_SQL[fn].format(sqlq.esql(e, f)) for fn, e in body[3]]
        sel = [f"{t} AS o{i}" for i, t in enumerate(ktxt + atxt)]
        s = f"SELECT {', '.join(sel)} FROM {src}"
        if where:
            s += f" WHERE {where}"
        if ktxt:
            s += " GROUP BY " + ", ".join(ktxt)
        if having is not None:
            out = ktxt + atxt
            s += " HAVING " + sqlq.esql(having, lambda i: out[i])
        return s + _tail(keys, skip, fetch)
    if body[0] == "project":
        src, f, where = _source(body[1])
        sel = [f"{sqlq.esql(e, f)} AS o{i}" for i, e in enumerate(body[2])]
        s = f"SELECT {'DISTINCT ' if distinct else ''}{', '.join(sel)} FROM {src}"
        if where:
            s += f" WHERE {where}"
        return s + _tail(keys, skip, fetch)
    raise ValueError(q)

# ---------------- generators of statement shapes ----------------
def _tbl(i, t):
    return ("table", i, t["name"], len(t["types"]))

def _cols_of(types, want):
    return [i for i, ty in enumerate(types) if ty in want]

def gen_source(rng, tables, join_p=0.25):
    """(source AST, types of its columns)"""
    t = tables[0]
    if len(tables) > 1 and rng.random() < join_p:
        u = tables[1]
        li, ri = _cols_of(t["types"], ("i64",)), _cols_of(u["types"], ("i64",))
        jt = rng.choice(["JInner", "JInner", "JLeft", "JRight", "JFull", "JCross"])
        wl = len(t["types"])
        on = ("cmp", "CEq", col(rng.choice(li)), col(wl + rng.choice(ri)))
        if rng.random() < 0.5:      # which table stands on the left matters for outer joins (shard-safe side)
            src = ("join", jt, _tbl(0, t), _tbl(1, u), on)
            types = t["types"] + u["types"]
        else:
            wl = len(u["types"])
            on = ("cmp", "CEq", col(wl + rng.choice(li)), col(rng.choice(ri)))
            src = ("join", jt, _tbl(1, u), _tbl(0, t), on)
            types = u["types"] + t["types"]
    else:
        src, types = _tbl(0, t), list(t["types"])
    if rng.random() < 0.6:
        src = ("filter", src, relgen.gen_pred(rng, types, depth=1))
    return src, types

def gen_aggs(rng, types, allow_distinct=False):
    aggs = []
    for _ in range(rng.randint(1, 4)):
        fn = rng.choice(["ACountStar", "ACount", "ASum", "AAvg", "AMin", "AMax"] + (["ACountDistinct"] if allow_distinct else []))
        if fn in ("ASum", "AAvg"):
            cs = _cols_of(types, ("i64", "f64"))
        else:
            cs = list(range(len(types)))
        aggs.append((fn, col(rng.choice(cs)) if cs else lit(1)))
    return aggs

def gen_sort_tail(rng, q, width, types_out=None):
    ks = []
    for i in rng.sample(range(width), rng.randint(1, min(2, width))):
        ks.append((col(i), rng.random() < 0.5, rng.choice([None, True, False])))
    q = ("sort", q, ks)
    k = rng.random()
    if k < 0.75:
        q = ("limit", q, rng.choice([0, 0, 1, 2, 5]), rng.choice([0, 1, 2, 3, 7, None]) if k < 0.7 else None)
        if q[2] == 0 and q[3] is None:
            q = q[1]
    return q

def gen_statement(rng, tables):
    """(kind, AST). kinds: concat, agg, agg-global, topn, limit, distinct, count-distinct, union, having"""
    k = rng.random()
    src, types = gen_source(rng, tables)
    w = len(types)
    if k < 0.18:
        es = [col(i) for i in rng.sample(range(w), rng.randint(1, min(3, w)))]
        return "concat", ("project", src, es)
    if k < 0.50:
        nk = rng.choice([1, 1, 2])
        keys = [col(i) for i in rng.sample(range(w), min(nk, w))]
        q = ("agg", src, keys, gen_aggs(rng, types))
        kind = "agg"
        if rng.random() < 0.3:
            q = ("filter", q, ("cmp", rng.choice(["CGt", "CGe", "CLe"]), col(len(keys)), lit(rng.choice([0, 1, 2]))))
            if q[1][3][0][0] not in ("ACountStar", "ACount"):
                q = q[1]
            else:
                kind = "having"
        if rng.random() < 0.4:
            q = gen_sort_tail(rng, q, sqlq.width(q))
        return kind, q
    if k < 0.62:
        q = ("agg", src, [], gen_aggs(rng, types))
        return "agg-global", q
    if k < 0.80:
        es = [col(i) for i in rng.sample(range(w), rng.randint(1, min(3, w)))]
        return "topn", gen_sort_tail(rng, ("project", src, es), len(es))
    if k < 0.84:
        es = [col(i) for i in rng.sample(range(w), rng.randint(1, min(2, w)))]
        return "limit", ("limit", ("project", src, es), rng.choice([0, 1]), rng.choice([0, 1, 3]))
    if k < 0.90:
        es = [col(i) for i in rng.sample(range(w), rng.randint(1, min(2, w)))]
        return "distinct", ("distinct", ("project", src, es))
    if k < 0.95:
        return "count-distinct", ("agg", src, [col(rng.randrange(w))] if rng.random() < 0.5 else [], gen_aggs(rng, types, allow_distinct=True) + [("ACountDistinct", col(rng.randrange(w)))])
    t = tables[0]
    i = rng.randrange(len(t["types"]))
    a = ("project", ("filter", _tbl(0, t), relgen.gen_pred(rng, t["types"], depth=0)), [col(i)])
    b = ("project", _tbl(0, t), [col(i)])
    return "union", ("setop", "SUnion", rng.random() < 0.5, a, b)

# ---------------- running and comparing ----------------
def coq_safe(q):
    """the same query with astronomically large LIMIT/OFFSET replaced (nat literals), for the Gallina reference"""
    if q[0] == "limit":
        skip = q[2] if q[2] < 10**6 else 10**6
        fetch = None if (q[3] is None or q[3] >= 10**6) else q[3]
        return ("limit", q[1], skip, fetch)
    return q

def aux_query(q):
    """what the ordered / limited comparison needs: the unlimited sorted relation, or the relation under a bare LIMIT"""
    si = relcheck.sort_info(q)
    if si:
        return si[0]
    if q[0] == "limit":
        return q[1]
    return None

def subbag(rows, full):
    rest = list(full)
    for row in rows:
        for j, y in enumerate(rest):
            if len(row) == len(y) and all(sqlq.close(a, b) for a, b in zip(row, y)):
                del rest[j]; break
        else:
            return False
    return True

def same_answer(q, got, want, full):
    """does `got` answer q as well as `want` does (rows as python values)? `full` = aux_query relation from the reference"""
    si = relcheck.sort_info(q)
    if si:
        sortq, skip, fetch = si
        idx = [k[0][1] for k in sortq[2]]
        if len(got) != len(want) or not all(sqlq.close(g[i], w[i]) for g, w in zip(got, want) for i in idx):
            return False
        if fetch is None and skip == 0:
            return sqlq.bag_equal(got, want)
        return sqlq.bag_equal(got, want) or (full is not None and subbag(got, full))
    if q[0] == "limit":
        return len(got) == len(want) and (sqlq.bag_equal(got, want) or (full is not None and subbag(got, full)))
    return sqlq.bag_equal(got, want)

def run_dist(tag, groups, nodes_of, extra=None):
    """groups: [{"tables":[t...], "queries":[{"q":ast|None, "sql":text, "kind":..}]}]; nodes_of(gi) -> list of cluster sizes.
    Returns (cases_sent, harness_outs, per-query reference dict or None)."""
    cases, terms, index = [], [], []
    preludes = []
    for gi, g in enumerate(groups):
        c = {"tables": [table_spec(t) for t in g["tables"]], "queries": [x["sql"] for x in g["queries"]], "nodes": nodes_of(gi)}
        if extra:
            c.update(extra(gi))
        cases.append(c)
        preludes.append(f"Definition db{gi} : list rel := {sqlq.db_coq([t['rows'] for t in g['tables']])}.")
        for qi, x in enumerate(g["queries"]):
            if x.get("q") is None:
                continue
            q = coq_safe(x["q"])
            aux = aux_query(q)
            auxt = sqlq.to_coq(aux) if aux is not None else "(QValues 0%nat [])"
            index.append((gi, qi))
            terms.append(f"(run3 db{gi} {sqlq.to_coq(q)}, run3 db{gi} {auxt}, known_bits db{gi} {sqlq.to_coq(q)})")
    outs = vlib.run_harness("c09", cases, timeout=3000)
    vals = vlib.coq_eval_list(relcheck.REQ, sqlq.EVAL_DEF + "\n" + "\n".join(preludes), terms, tag, shard=40)
    ref = {}
    for (gi, qi), v in zip(index, vals):
        eng_enc, sql_enc, known, (engf, sqlf, _), bits = v
        dec = lambda rel: [[sqlgen.dec(c) for c in r] for r in rel]
        ref[(gi, qi)] = {"eng": dec(eng_enc), "sql": dec(sql_enc), "known": bool(known), "eng_aux": dec(engf), "sql_aux": dec(sqlf),
                         "classes": [c for c, b in zip(relcheck.CLASSES, bits) if b]}
    return cases, outs, ref
