"""Shared machinery for /verif/check: Coq build + assumption audit, harness build/run,
model evaluation inside Coq (cases.v + vm_compute), verdict protocol, evidence writer."""
import fcntl, hashlib, json, os, random, re, subprocess, sys, time
from concurrent.futures import ThreadPoolExecutor

VERIF = os.path.dirname(os.path.dirname(os.path.abspath(__file__)))
REPO = os.environ.get("QE_REPO", "/repo")
COQ = os.path.join(VERIF, "coq")
HARNESS = os.path.join(VERIF, "harness")
WORK = os.path.join(VERIF, ".work")


STD_AXIOM_ALLOW = {
    # axioms declared by the standard library / Flocq's Reals; allowed when named in the trusted base
    "ClassicalDedekindReals.sig_forall_dec", "ClassicalDedekindReals.sig_not_dec",
    "FunctionalExtensionality.functional_extensionality_dep", "Classical_Prop.classic",
    "functional_extensionality_dep", "classic", "sig_forall_dec", "sig_not_dec",
    "Eqdep.Eq_rect_eq.eq_rect_eq", "eq_rect_eq", "ProofIrrelevance.proof_irrelevance",
    "proof_irrelevance", "JMeq.JMeq_eq", "JMeq_eq", "PropExtensionality.propositional_extensionality",
    "propositional_extensionality",
}

BASE_TRUSTED = [
    "Coq 8.16.1 kernel incl. vm_compute (no native_compute)",
    "hand-written Gallina model of the anchored Rust functions (tied by the correspondence run below)",
    "correspondence harness /verif/harness (Rust, path dependency on /repo, --cfg qe_verif) and its canonicalisation",
    "/verif/check + lib/vlib.py (case generation, cases.v rendering, output parsing)",
    "rustc/std and the arrow, parquet, sqlparser crates (modelled, not verified)",
]


def sh(cmd, cwd=None, timeout=None, env=None, input=None):
    p = subprocess.run(cmd, cwd=cwd, shell=isinstance(cmd, str), capture_output=True, text=True,
                       timeout=timeout, env=env, input=input)
    return p.returncode, p.stdout, p.stderr


class Lock:
    def __init__(self, name):
        os.makedirs(WORK, exist_ok=True)
        self.path = os.path.join(WORK, name + ".lock")

    def __enter__(self):
        self.f = open(self.path, "w")
        fcntl.flock(self.f, fcntl.LOCK_EX)
        return self

    def __exit__(self, *a):
        fcntl.flock(self.f, fcntl.LOCK_UN)
        self.f.close()


def strip_coq_comments(s):
    out, depth, i, in_str = [], 0, 0, False
    while i < len(s):
        if not in_str and s.startswith("(*", i):
            depth += 1; i += 2; continue
        if not in_str and depth > 0 and s.startswith("*)", i):
            depth -= 1; i += 2; continue
        if depth == 0:
            if s[i] == '"':
                in_str = not in_str
            out.append(s[i])
        i += 1
    return "".join(out)


HYGIENE_RE = re.compile(
    r"\b(Admitted|admit|Axiom|Axioms|Parameter|Parameters|Conjecture|Conjectures|give_up)\b|Admit Obligations|Unset Guard|"
    r"Unset Positivity|Unset Universe|bypass_check|type-in-type|impredicative-set|native_compute")


def coq_closure(pid):
    """The .v files theories/Props/<pid>.v depends on (transitively, within this development)."""
    root = os.path.join(COQ, "theories")
    seen, todo = set(), [os.path.join(root, "Props", pid + ".v")]
    while todo:
        f = todo.pop()
        if f in seen or not os.path.exists(f):
            continue
        seen.add(f)
        txt = strip_coq_comments(open(f).read())
        for m in re.finditer(r"Require\s+(?:Import\s+|Export\s+)?(.+?)\.(?=\s|$)", txt, re.S):
            for mod in m.group(1).split():
                mod = mod.strip()
                if mod.startswith("QV."):
                    mod = mod[3:]
                cand = os.path.join(root, *mod.split(".")) + ".v"
                if os.path.exists(cand):
                    todo.append(cand)
    return sorted(seen)


def hygiene(pid=None):
    """Scan the .v files a property depends on (all files when pid is None) for forbidden declarations."""
    bad = []
    if pid is not None:
        files_iter = [(os.path.dirname(f), [os.path.basename(f)]) for f in coq_closure(pid)]
    else:
        files_iter = [(r, fs) for r, _, fs in os.walk(COQ)]
    for root, files in files_iter:
        for f in files:
            if not f.endswith(".v"):
                continue
            p = os.path.join(root, f)
            txt = strip_coq_comments(open(p).read())
            depth = 0
            for ln, line in enumerate(txt.split("\n"), 1):
                if HYGIENE_RE.search(line):
                    bad.append(f"{p}:{ln}: {line.strip()}")
                if re.match(r"\s*(Section|Module)\s+\w+", line) and ":=" not in line:
                    depth += 1
                elif re.match(r"\s*End\s+\w+\s*\.", line):
                    depth = max(0, depth - 1)
                elif depth == 0 and re.match(r"\s*(Variable|Variables|Hypothesis|Hypotheses|Context)\b", line):
                    bad.append(f"{p}:{ln}: {line.strip()} (outside a Section)")
    for fn in ("_CoqProject",):
        t = open(os.path.join(COQ, fn)).read()
        if "type-in-type" in t or "impredicative-set" in t:
            bad.append(f"{fn}: forbidden flag")
    return bad


def coq_project_files():
    out = []
    for l in open(os.path.join(COQ, "_CoqProject")):
        l = l.strip()
        if l.endswith(".v"):
            out.append(l)
    return out


def write_coq_project():
    """_CoqProject is generated from the tree: every .v under coq/theories (coqdep orders them)."""
    files = []
    for root, _, fs in os.walk(os.path.join(COQ, "theories")):
        for f in fs:
            if f.endswith(".v") and not f.startswith("."):
                files.append(os.path.relpath(os.path.join(root, f), COQ))
    txt = "-Q theories QV\n" + "\n".join(sorted(files)) + "\n"
    p = os.path.join(COQ, "_CoqProject")
    if not os.path.exists(p) or open(p).read() != txt:
        open(p, "w").write(txt)


def run_gen():
    """Regenerate coq/theories/Gen/*.v from /repo's current source (translator)."""
    tool = os.path.join(VERIF, "tools", "rs2v.py")
    if os.path.exists(tool):
        rc, o, e = sh([sys.executable, tool], cwd=VERIF, timeout=120)
        return rc == 0, (o + e)
    return True, ""


def coq_make(targets, timeout=1500):
    with Lock("coq"):
        gen_ok, gen_log = run_gen()
        write_coq_project()
        rc, o, e = sh("coq_makefile -f _CoqProject -o Makefile.coq", cwd=COQ, timeout=120)
        if rc != 0:
            return False, o + e
        rc, o, e = sh(["make", "-f", "Makefile.coq", "-j16"] + targets, cwd=COQ, timeout=timeout)
        log = gen_log + o + e
        return (rc == 0 and gen_ok), log


def parse_assumptions(stdout, names):
    """Split coqc output into one block per `Print Assumptions`."""
    blocks, cur = [], None
    for line in stdout.split("\n"):
        if line.startswith("Closed under the global context"):
            if cur is not None:
                blocks.append(cur)
            blocks.append([]); cur = None
        elif line.startswith("Axioms:"):
            if cur is not None:
                blocks.append(cur)
            cur = []
        elif cur is not None:
            m = re.match(r"^([A-Za-z_][\w.']*)\s*:", line)
            if m:
                cur.append(m.group(1))
    if cur is not None:
        blocks.append(cur)
    res = {}
    for i, n in enumerate(names):
        res[n] = blocks[i] if i < len(blocks) else None
    return res


def coq_props(pid, allow=()):
    """Build theories/Props/<pid>.vo (full .vo build of everything it depends on), re-run the
    props file to capture Print Assumptions, audit them. Returns dict."""
    t0 = time.time()
    res = {"ok": False, "obligations": 0, "discharged": 0, "assumptions": {}, "log": "", "hygiene": [],
           "failed_theorem": None}
    bad = hygiene(pid)
    res["hygiene"] = bad
    src = os.path.join(COQ, "theories", "Props", pid + ".v")
    txt = strip_coq_comments(open(src).read())
    thms = re.findall(r"\b(?:Theorem|Lemma|Corollary|Example)\s+(\w+)", txt)
    pins = re.findall(r"\bCheck\s+\(?\s*(\w+)", txt)
    printed = re.findall(r"Print Assumptions\s+(\w+)", txt)
    res["theorems"] = thms
    res["obligations"] = len(thms) + len(pins)
    ok, log = coq_make([f"theories/Props/{pid}.vo"])
    res["log"] = log[-6000:]
    if not ok:
        m = re.search(r'File "([^"]+)", line (\d+)', log)
        res["failed_theorem"] = f"{m.group(1)}:{m.group(2)}" if m else "coq build"
        res["wall_s"] = time.time() - t0
        return res
    os.makedirs(os.path.join(WORK, "props"), exist_ok=True)
    with Lock("coq"):
        rc, o, e = sh(["coqc", "-Q", "theories", "QV", "-noglob", "-o", os.path.join(WORK, "props", f"{pid}.vo"),
                       f"theories/Props/{pid}.v"], cwd=COQ, timeout=900)
    if rc != 0:
        res["log"] = (o + e)[-6000:]
        res["failed_theorem"] = f"Props/{pid}.v"
        return res
    ass = parse_assumptions(o, printed)
    res["assumptions"] = ass
    unexpected = []
    for n in thms:
        if n not in ass or ass[n] is None:
            unexpected.append(f"{n}: no Print Assumptions output")
        else:
            for a in ass[n]:
                if a not in allow and a.split(".")[-1] not in allow:
                    unexpected.append(f"{n}: unexpected assumption {a}")
    res["unexpected_assumptions"] = unexpected
    res["ok"] = (not bad) and (not unexpected)
    if res["ok"]:
        res["discharged"] = res["obligations"]
    res["wall_s"] = time.time() - t0
    return res


_harness_built = set()


def build_harness(module):
    """(Re)build harness binary `module` against /repo's current working tree. cargo tracks the
    path dependency's sources itself, so an unchanged tree is a ~1 s no-op."""
    if module in _harness_built:
        return True, ""
    with Lock("cargo"):
        lock_src = os.path.join(REPO, "Cargo.lock")
        lock_dst = os.path.join(HARNESS, "Cargo.lock")
        if open(lock_src).read() != (open(lock_dst).read() if os.path.exists(lock_dst) else ""):
            open(lock_dst, "w").write(open(lock_src).read())
        env = dict(os.environ, CARGO_NET_OFFLINE="true")
        rc, o, e = sh(["cargo", "build", "--offline", "--quiet", "--bin", module], cwd=HARNESS, timeout=3000, env=env)
    if rc == 0:
        _harness_built.add(module)
    errs = "\n".join(l for l in (o + e).split("\n") if "warning" not in l)
    return rc == 0, errs[-4000:]


def harness_bin(module):
    return os.path.join(HARNESS, "target", "debug", module)


def run_harness(module, cases, timeout=1800, env=None, args=()):
    """Run harness binary `module` (harness/src/bin/<module>.rs) on JSON cases; one output per case."""
    ok, log = build_harness(module)
    if not ok:
        raise HarnessBuildError(log)
    inp = "\n".join(json.dumps(c) for c in cases) + "\n"
    e2 = dict(os.environ)
    if env:
        e2.update(env)
    p = subprocess.run([harness_bin(module)] + list(args), input=inp, capture_output=True, text=True, timeout=timeout, env=e2)
    outs = []
    for l in p.stdout.split("\n"):
        if l.strip():
            try:
                outs.append(json.loads(l))
            except Exception:
                outs.append({"harness_error": "unparsable: " + l[:200]})
    while len(outs) < len(cases):
        outs.append({"harness_error": f"no output (exit {p.returncode}): {p.stderr[-300:]}"})
    return outs


class HarnessBuildError(Exception):
    pass


# ---------------- evaluating the model inside Coq ----------------
def _coqc_scratch(name, text, timeout=900):
    d = os.path.join(WORK, "cases")
    os.makedirs(d, exist_ok=True)
    p = os.path.join(d, name + ".v")
    open(p, "w").write(text)
    # vm_compute over large generated cases (thorough tier: tables of 1000+ rows) recurses deeply in non-tail-recursive
    # Gallina functions; the default 8 MiB stack overflows ("Error: Stack overflow"), so the evaluation runs with the
    # stack limit lifted as far as the hard limit allows
    rc, o, e = sh(["bash", "-c", 'ulimit -s unlimited 2>/dev/null || ulimit -s $(ulimit -H -s) 2>/dev/null; exec coqc "$@"', "coqc",
                   "-Q", os.path.join(COQ, "theories"), "QV", "-noglob", "-o", p + "o", p], cwd=d, timeout=timeout)
    return rc, o, e


def parse_coq_value(out):
    """Parse the value printed by one `Eval vm_compute in t.`: nested lists of bools / numbers /
    options into Python."""
    m = re.search(r"=\s(.*?)\n\s*:\s", out, re.S)
    s = m.group(1) if m else out
    s = re.sub(r"%\w+", "", s)
    s = s.replace(";", ",").replace("true", "True").replace("false", "False")
    s = re.sub(r"\bSome\b", "", s).replace("None", "None")
    s = re.sub(r"\s+", " ", s)
    return eval(s, {"__builtins__": {}}, {"True": True, "False": False, "None": None})


def coq_eval_list(requires, prelude, terms, tag, shard=150, timeout=900):
    """Evaluate each Coq term (same type) with vm_compute; returns list of parsed values.
    Sharded over parallel coqc processes."""
    if not terms:
        return []
    shards = [terms[i:i + shard] for i in range(0, len(terms), shard)]

    def one(k):
        body = ";\n ".join(shards[k])
        text = f"{requires}\nLocal Open Scope Z_scope.\n{prelude}\nDefinition cs := [\n {body}\n].\nEval vm_compute in cs.\n"
        rc, o, e = _coqc_scratch(f"{tag}_{k}", text, timeout)
        if rc != 0:
            raise RuntimeError(f"coqc failed on generated cases ({tag}_{k}): {(o + e)[-1500:]}")
        v = parse_coq_value(o)
        if len(v) != len(shards[k]):
            raise RuntimeError(f"parse mismatch {len(v)} vs {len(shards[k])}")
        return v

    with ThreadPoolExecutor(max_workers=16) as ex:
        parts = list(ex.map(one, range(len(shards))))
    return [x for p in parts for x in p]


# ---------------- Coq term rendering ----------------
def zlit(n):
    n = int(n)
    return f"({n})" if n < 0 else str(n)


def zlist(l):
    return "[" + "; ".join(zlit(x) for x in l) + "]"


def natlist(l):
    return "([" + "; ".join(str(int(x)) for x in l) + "]%nat)"


def bytes_of_str(s):
    return zlist(list(s.encode("utf-8")))


def blit(b):
    return "true" if b else "false"


def optlit(x, f):
    return "None" if x is None else f"(Some {f(x)})"


# ---------------- known findings ----------------
def known_findings(pid):
    p = os.path.join(VERIF, "known_findings.txt")
    out = {}
    if not os.path.exists(p):
        return out
    for line in open(p):
        line = line.strip()
        if not line.startswith("known:"):
            continue
        m = re.match(r"known:\s+property=(\S+)\s+class=(\S+)\s+(.*)", line)
        if m and m.group(1) == pid:
            out[m.group(2)] = m.group(3)
    return out


# ---------------- context / verdict ----------------
class Ctx:
    def __init__(self, pid, tier, seed, replay=None):
        self.pid, self.tier, self.seed, self.replay = pid, tier, seed, replay
        self.rng = random.Random(seed)
        self.t0 = time.time()
        self.violations = []      # (replay_path, found_input)
        self.known_printed = set()
        self.cov = {"evaluations": 0, "distinct_nontrivial": 0, "samples": [], "traces_validated_against_impl": 0}
        self.assumptions = []
        self.trusted = list(BASE_TRUSTED)
        self.coq = None
        self.known = known_findings(pid)
        self.quick = tier == "quick"
        if not replay:
            import glob
            for f in glob.glob(os.path.join(VERIF, "replays", f"{pid}-{tier}-*.json")):
                try:
                    os.remove(f)
                except OSError:
                    pass

    def n(self, quick, thorough):
        return quick if self.quick else thorough

    # -- proof obligations
    def prove(self, allow=()):
        self.coq = coq_props(self.pid, allow)
        c = self.coq
        self.cov["obligations"] = c["obligations"]
        self.cov["discharged"] = c["discharged"]
        self.cov["checker_cmd"] = (f"cd /verif/coq && coq_makefile -f _CoqProject -o Makefile.coq && make -f Makefile.coq "
                                   f"theories/Props/{self.pid}.vo && coqc -Q theories QV theories/Props/{self.pid}.v  (full .vo build; "
                                   f"hygiene grep + Print Assumptions audit by lib/vlib.py)")
        self.cov["theorems"] = c.get("theorems", [])
        self.cov["print_assumptions"] = {k: v for k, v in c.get("assumptions", {}).items()}
        if c["hygiene"]:
            print("BROKEN-CHECK: forbidden declarations in the Coq development:\n  " + "\n  ".join(c["hygiene"]))
        if c.get("unexpected_assumptions"):
            print("BROKEN-CHECK: unexpected assumptions:\n  " + "\n  ".join(c["unexpected_assumptions"]))
        return c["ok"]

    def proof_broken_violation(self, searched):
        c = self.coq
        self.violation({"kind": "proof-obligation-no-longer-checks", "theorem_or_file": c.get("failed_theorem"),
                        "hygiene": c.get("hygiene"), "unexpected_assumptions": c.get("unexpected_assumptions"),
                        "log_tail": c.get("log", "")[-3000:], "search": searched}, found_input=False)

    # -- verdicts
    def violation(self, obj, found_input=True, tag=None):
        d = os.path.join(VERIF, "replays")
        os.makedirs(d, exist_ok=True)
        h = hashlib.sha1(json.dumps(obj, sort_keys=True, default=str).encode()).hexdigest()[:10]
        p = os.path.join(d, f"{self.pid}-{self.tier}-{self.seed}-{tag or h}.json")
        obj = dict(obj, property=self.pid, seed=self.seed, tier=self.tier, found_failing_input=found_input)
        json.dump(obj, open(p, "w"), indent=1, default=str)
        self.violations.append((p, found_input))

    def known_finding(self, cls, what):
        if cls not in self.known_printed:
            self.known_printed.add(cls)
            print(f"KNOWN-FINDING: property={self.pid} class={cls} {what}")

    def is_known(self, cls):
        return cls in self.known

    def sample(self, x, limit=5):
        if len(self.cov["samples"]) < limit:
            self.cov["samples"].append(x)

    def finish(self, level="proof", rule="", extra=None, assumptions=()):
        cov = self.cov
        cov["rule"] = rule
        cov["trusted_base"] = self.trusted
        if extra:
            cov.update(extra)
        if not cov["samples"]:
            cov["samples"] = ["(no case generated)"]
        ev = {"property_id": self.pid, "tier": self.tier, "seed": self.seed, "level": level, "coverage": cov,
              "assumptions": list(assumptions) + self.assumptions, "wall_s": round(time.time() - self.t0, 2),
              "violations": len(self.violations)}
        os.makedirs(os.path.join(VERIF, "evidence"), exist_ok=True)
        json.dump(ev, open(os.path.join(VERIF, "evidence", self.pid + ".json"), "w"), indent=1, default=str)
        for p, found in self.violations:
            print(f"VIOLATION property={self.pid} replay={p}" + ("" if found else " no-failing-input-found"))
        if self.violations:
            return 1
        print(f"OK property={self.pid} tier={self.tier} obligations={cov.get('obligations')} discharged={cov.get('discharged')} "
              f"evaluations={cov['evaluations']} validated_against_impl={cov['traces_validated_against_impl']} "
              f"wall={ev['wall_s']}s")
        return 0

    # -- standard correspondence judgement
    def judge(self, cases, eq, ok, classify=None, describe=None, impl_outs=None):
        """cases[i]: input; eq[i]: impl output == model output; ok[i]: impl output satisfies the spec.
        classify(case) -> known-class name or None."""
        first_diff = None
        for i, c in enumerate(cases):
            self.cov["traces_validated_against_impl"] += 1 if eq[i] else 0
            if not ok[i]:
                cls = classify(c) if classify else None
                if cls and self.is_known(cls) and eq[i]:
                    self.known_finding(cls, self.known[cls])
                else:
                    self.violation({"kind": "implementation-violates-spec", "case": c,
                                    "impl_output": impl_outs[i] if impl_outs else None,
                                    "impl_equals_model": eq[i], "class": cls}, found_input=True)
                    if len(self.violations) >= 3:
                        return
            elif not eq[i] and first_diff is None:
                first_diff = i
        if first_diff is not None and not self.violations:
            self.violation({"kind": "correspondence-broken: implementation differs from the model although the spec "
                                    "still holds on every explored input", "first_differing_case": cases[first_diff],
                            "impl_output": impl_outs[first_diff] if impl_outs else None,
                            "n_differing": sum(1 for x in eq if not x), "n_cases": len(cases)}, found_input=False)
