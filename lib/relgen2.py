"""Typed random query generator over the sqlq AST (used by C01 and others): every generated query carries
its output column types so expressions stay well-typed. All randomness from the given rng."""
from fractions import Fraction
import relgen
from relgen import col, lit

NUM = ("i64", "i32", "f64")

def lit_of(rng, ty):
    return lit(relgen.gen_value(rng, ty, null_p=0.0))

def gen_scalar(rng, types, want, depth=1):
    """expression of type `want` over columns of `types`"""
    cands = [i for i, t in enumerate(types) if t == want or (want == "i64" and t == "i32")]
    k = rng.random()
    if depth == 0 or k < 0.45:
        if cands and rng.random() < 0.8:
            return col(rng.choice(cands))
        return lit_of(rng, want)
    if want in ("i64", "f64") and k < 0.7:
        return ("arith", rng.choice(["AAdd", "ASub", "AMul"]), gen_scalar(rng, types, want, depth - 1),
                gen_scalar(rng, types, want, 0))
    if k < 0.85:
        return ("coalesce", [gen_scalar(rng, types, want, 0), gen_scalar(rng, types, want, 0)])
    return ("case", [(gen_bool(rng, types, 0), gen_scalar(rng, types, want, 0))],
            gen_scalar(rng, types, want, 0) if rng.random() < 0.7 else None)

def gen_bool(rng, types, depth=1, allow_or=True):
    def atom():
        i = rng.randrange(len(types))
        ty = types[i]
        k = rng.random()
        if k < 0.12:
            return (rng.choice(["isnull", "isnotnull"]), col(i))
        if ty == "bool":
            return ("cmp", "CEq", col(i), lit(rng.random() < 0.5))
        if k < 0.25 and ty in ("i64", "i32", "str", "date"):
            items = [lit_of(rng, "i64" if ty == "i32" else ty) for _ in range(rng.randint(1, 3))]
            return ("in", col(i), items, rng.random() < 0.3)
        if k < 0.35 and ty in ("i64", "i32", "f64", "date"):
            t2 = "i64" if ty == "i32" else ty
            return ("between", col(i), lit_of(rng, t2), lit_of(rng, t2), rng.random() < 0.3)
        if k < 0.45 and ty == "str":
            return ("like", col(i), lit(rng.choice(["a%", "%b", "%a%", "_", "a_", "%", "",
                                                    # prefix%suffix whose prefix and suffix OVERLAP in short strings ('aba' LIKE 'ab%ba' is
                                                    # false): added after seeded change seeded/C01
                                                    "ab%ba", "a%a", "ab%b", "a%b", "é%é"])), rng.random() < 0.3)
        same = [j for j, t in enumerate(types) if j != i and (t == ty or {t, ty} <= {"i64", "i32"})]
        if same and k < 0.6:
            return ("cmp", rng.choice(["CEq", "CNe", "CLt", "CGe"]), col(i), col(rng.choice(same)))
        t2 = "i64" if ty == "i32" else ty
        return ("cmp", rng.choice(["CEq", "CNe", "CLt", "CLe", "CGt", "CGe"]), col(i), lit_of(rng, t2))
    if depth == 0 or rng.random() < 0.4:
        return atom()
    k = rng.choice(["and", "and", "or", "not"] if allow_or else ["and"])
    if k == "not":
        return ("not", gen_bool(rng, types, depth - 1, allow_or))
    return (k, gen_bool(rng, types, depth - 1, allow_or), gen_bool(rng, types, depth - 1, allow_or))

def result_type(fn, ty):
    if fn in ("ACountStar", "ACount", "ACountDistinct"):
        return "i64"
    if fn == "AAvg":
        return "f64"
    if fn == "ASum":
        return "f64" if ty == "f64" else "i64"
    return ty

def gen_query(rng, tables, depth, allow_or=True, allow_setops=True):
    """tables: list of relgen tables ({"name","types","rows"}). Returns (query, types)."""
    if depth == 0 or rng.random() < 0.2:
        i = rng.randrange(len(tables))
        return relgen.tbl(i, tables[i]), list(tables[i]["types"])
    k = rng.choice(["filter", "filter", "project", "join", "agg", "distinct", "setop"])
    if k == "filter":
        q, ts = gen_query(rng, tables, depth - 1, allow_or, allow_setops)
        return ("filter", q, gen_bool(rng, ts, 1, allow_or)), ts
    if k == "project":
        q, ts = gen_query(rng, tables, depth - 1, allow_or, allow_setops)
        n = rng.randint(1, 3)
        outs, es = [], []
        for _ in range(n):
            want = rng.choice([t for t in ts if t != "bool"] or ["i64"])
            want = "i64" if want == "i32" else want
            es.append(gen_scalar(rng, ts, want, 1)); outs.append(want)
        return ("project", q, es), outs
    if k == "join":
        l, lt = gen_query(rng, tables, depth - 1, allow_or, allow_setops)
        r, rt = gen_query(rng, tables, 0)
        pairs = [(i, j) for i, a in enumerate(lt) for j, b in enumerate(rt)
                 if a != "bool" and a != "f64" and (a == b or {a, b} <= {"i64", "i32"})]
        jt = rng.choice(["JInner", "JInner", "JLeft", "JRight", "JFull"])
        if not pairs:
            return ("join", "JCross", l, r, lit(True)), lt + rt
        on = None
        for (i, j) in rng.sample(pairs, min(len(pairs), rng.randint(1, 2))):
            e = ("cmp", "CEq", col(i), col(len(lt) + j))
            on = e if on is None else ("and", on, e)
        return ("join", jt, l, r, on), lt + rt
    if k == "agg":
        q, ts = gen_query(rng, tables, depth - 1, allow_or, allow_setops)
        keyc = [i for i, t in enumerate(ts) if t not in ("bool", "f64")]
        keys = rng.sample(keyc, min(len(keyc), rng.randint(0, 2)))
        aggs, outs = [], [ts[i] for i in keys]
        for _ in range(rng.randint(1, 3)):
            fn = rng.choice(["ACountStar", "ACount", "ASum", "AAvg", "AMin", "AMax", "ACountDistinct"])
            ok = [i for i, t in enumerate(ts) if (t in ("i64", "f64") if fn in ("ASum", "AAvg")
                                                   else t in ("i64", "f64", "str", "date") if fn in ("AMin", "AMax")
                                                   else t != "bool")]
            if fn == "ACountStar" or not ok:
                aggs.append(("ACountStar", lit(1))); outs.append("i64")
            else:
                i = rng.choice(ok)
                aggs.append((fn, col(i))); outs.append(result_type(fn, ts[i]))
        return ("agg", q, [col(i) for i in keys], aggs), outs
    if k == "distinct":
        q, ts = gen_query(rng, tables, depth - 1, allow_or, allow_setops)
        if "bool" in ts:
            return q, ts
        return ("distinct", q), ts
    # set operation between two queries of the same table shape
    if not allow_setops:
        return gen_query(rng, tables, depth - 1, allow_or, allow_setops)
    i = rng.randrange(len(tables))
    same = [j for j, t in enumerate(tables) if t["types"] == tables[i]["types"]]
    j = rng.choice(same)
    l, r = relgen.tbl(i, tables[i]), relgen.tbl(j, tables[j])
    if rng.random() < 0.5:
        l = ("filter", l, gen_bool(rng, tables[i]["types"], 0))
    ts = list(tables[i]["types"])
    if "bool" in ts:
        return ("setop", "SUnion", True, l, r), ts
    return ("setop", rng.choice(["SUnion", "SIntersect", "SExcept"]), rng.random() < 0.4, l, r), ts

def with_order_limit(rng, q, ts, nrows_hint=8):
    """optionally add ORDER BY (plain output columns) and LIMIT/OFFSET at the top"""
    k = rng.random()
    if k < 0.5:
        return q
    sortable = [i for i, t in enumerate(ts) if t != "bool"]
    if not sortable:
        return q
    keys = [(col(i), rng.random() < 0.5, rng.choice([None, True, False])) for i in rng.sample(sortable, min(len(sortable), rng.randint(1, 2)))]
    s = ("sort", q, keys)
    if k < 0.75:
        return s
    return ("limit", s, rng.choice([0, 0, 1, 2]), rng.choice([None, 0, 1, 3, nrows_hint]))
