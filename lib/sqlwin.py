"""Window-function and grouping-set ASTs with two renderers: SQL text (engine) and Coq terms
(coq/theories/C26/Model.v `wexpr`, coq/theories/C27/Model.v `gsq`).

window expression (dict):
  func : ("row_number",) ("rank",) ("dense_rank",) ("percent_rank",) ("cume_dist",) ("ntile", k)
         ("lag", off|None) ("lead", off|None) ("first",) ("last",) ("nth", k) ("agg", "ASum"|"ACount"|"ACountStar"|"AAvg"|"AMin"|"AMax")
  arg  : sqlgen expression or None;  default : expression or None (LAG/LEAD third argument)
  part : [expr];  order : [(expr, desc, nulls_first|None)]
  frame: None | (units "rows"|"range", start, end) with bounds ("unb_prec",) ("prec",k) ("cur",) ("fol",k) ("unb_fol",)
  okey_num : the single ORDER BY key is numeric/date;  mod : None | ("ignore_nulls",) | ("filter", expr) | ("distinct",)
"""
import sqlgen
from sqlgen import e_sql, e_coq, bl

FN = {"row_number": "ROW_NUMBER", "rank": "RANK", "dense_rank": "DENSE_RANK", "percent_rank": "PERCENT_RANK",
      "cume_dist": "CUME_DIST", "first": "FIRST_VALUE", "last": "LAST_VALUE"}
AGG = {"ASum": "SUM", "ACount": "COUNT", "AAvg": "AVG", "AMin": "MIN", "AMax": "MAX"}

def bound_sql(b):
    return {"unb_prec": "UNBOUNDED PRECEDING", "cur": "CURRENT ROW", "unb_fol": "UNBOUNDED FOLLOWING"}.get(b[0]) or \
        (f"{b[1]} PRECEDING" if b[0] == "prec" else f"{b[1]} FOLLOWING")

def bound_coq(b):
    return {"unb_prec": "BUnbPrec", "cur": "BCur", "unb_fol": "BUnbFol"}.get(b[0]) or \
        (f"(BPrec {b[1]}%nat)" if b[0] == "prec" else f"(BFol {b[1]}%nat)")

def order_sql(order):
    ks = []
    for e, desc, nf in order:
        k = e_sql(e) + (" DESC" if desc else " ASC")
        if nf is not None:
            k += " NULLS FIRST" if nf else " NULLS LAST"
        ks.append(k)
    return ", ".join(ks)

def w_sql(w):
    f = w["func"]
    mod = w.get("mod")
    arg = e_sql(w["arg"]) if w.get("arg") is not None else None
    d = "DISTINCT " if mod and mod[0] == "distinct" else ""
    if f[0] in FN:
        call = f"{FN[f[0]]}({arg if f[0] in ('first', 'last') else ''})"
    elif f[0] == "ntile":
        call = f"NTILE({f[1]})"
    elif f[0] in ("lag", "lead"):
        args = [arg]
        if f[1] is not None or w.get("default") is not None:
            args.append(str(1 if f[1] is None else f[1]))
        if w.get("default") is not None:
            args.append(e_sql(w["default"]))
        call = f"{f[0].upper()}({', '.join(args)})"
    elif f[0] == "nth":
        call = f"NTH_VALUE({arg}, {f[1]})"
    elif f[0] == "agg":
        call = "COUNT(*)" if f[1] == "ACountStar" else f"{AGG[f[1]]}({d}{arg})"
    else:
        raise ValueError(f)
    if mod and mod[0] == "ignore_nulls":
        call += " IGNORE NULLS"
    if mod and mod[0] == "filter":
        call += f" FILTER (WHERE {e_sql(mod[1])})"
    parts = []
    if w["part"]:
        parts.append("PARTITION BY " + ", ".join(e_sql(e) for e in w["part"]))
    if w["order"]:
        parts.append("ORDER BY " + order_sql(w["order"]))
    if w.get("frame"):
        u, s, e = w["frame"]
        if e is None:
            parts.append(f"{u.upper()} {bound_sql(s)}")
        else:
            parts.append(f"{u.upper()} BETWEEN {bound_sql(s)} AND {bound_sql(e)}")
    return f"{call} OVER ({' '.join(parts)})"

def w_coq(w):
    f = w["func"]
    z = sqlgen.zl
    if f[0] in FN:
        fn = {"row_number": "WRowNumber", "rank": "WRank", "dense_rank": "WDenseRank", "percent_rank": "WPercentRank",
              "cume_dist": "WCumeDist", "first": "WFirst", "last": "WLast"}[f[0]]
    elif f[0] == "ntile":
        fn = f"(WNtile {z(f[1])})"
    elif f[0] in ("lag", "lead"):
        fn = f"({'WLag' if f[0] == 'lag' else 'WLead'} {z(1 if f[1] is None else f[1])})"
    elif f[0] == "nth":
        fn = f"(WNth {z(f[1])})"
    else:
        fn = f"(WAgg {f[1]})"
    opt = lambda e: "None" if e is None else f"(Some {e_coq(e)})"
    keys = "; ".join(f"(mkKey {e_coq(e)} {bl(d)} {bl(bool(nf))})" for e, d, nf in w["order"])
    if w.get("frame"):
        u, s, e = w["frame"]
        fr = f"(Some (mkFrame {'URows' if u == 'rows' else 'URange'} {bound_coq(s)} {bound_coq(e if e is not None else ('cur',))}))"
    else:
        fr = "None"
    mod = w.get("mod")
    m = "MNone" if not mod else {"ignore_nulls": "MIgnoreNulls", "distinct": "MDistinct"}.get(mod[0]) or f"(MFilter {e_coq(mod[1])})"
    return (f"(mkW {fn} {opt(w.get('arg'))} {opt(w.get('default'))} [{'; '.join(e_coq(e) for e in w['part'])}] [{keys}] "
            f"{fr} {bl(w.get('okey_num', False))} {m})")

def out_coq(pairs):
    """[(id, value)] -> Coq list (Z * value)"""
    return "[" + "; ".join(f"({sqlgen.zl(i)}, {sqlgen.val_coq(v)})" for i, v in pairs) + "]"

# ---------------- grouping sets (C27) ----------------
# gs = ("rollup", [i..]) | ("cube", [i..]) | ("sets", [[i..], ...]) over column indices of the table
def gs_sql(gs, names):
    if gs[0] in ("rollup", "cube"):
        return f"{gs[0].upper()}({', '.join(names[i] for i in gs[1])})"
    return "GROUPING SETS (" + ", ".join("(" + ", ".join(names[i] for i in s) + ")" for s in gs[1]) + ")"

def natl(l):
    return "[" + "; ".join(str(i) for i in l) + "]%nat"

def gs_coq(gs):
    if gs[0] == "rollup":
        return f"(GRollup {natl(gs[1])})"
    if gs[0] == "cube":
        return f"(GCube {natl(gs[1])})"
    return "(GSets [" + "; ".join(natl(s) for s in gs[1]) + "])"
