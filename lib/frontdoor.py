"""Shared by checks/C34.py and checks/C35.py: the world the front-door harness (harness/src/frontdoor.rs) is set up
with, seeded statement / query-string / ticket generators, and rendering of observations as Coq terms of
C35.Model / C34.Model."""
import json
import re

import vlib
from vlib import zlit, blit

CAP = 1024 * 1024

# ----------------------------------------------------------------------------------------------
# data: every node loads the same Parquet directories (A); B differs in `big` only (another row count => another
# split digest), which makes the node that loads B refuse every fragment over `big`.
# ----------------------------------------------------------------------------------------------
def table_t():
    return {"name": "t", "cols": [["k", "i64"], ["s", "str"], ["x", "f64"], ["d", "date"], ["b", "bool"]],
            "rows": [[1, "a", 1.5, 10, True], [2, "b,c", "-0", None, False], [None, 'q"uote', 2.25, 20000, None],
                     [4, None, None, 0, True], [5, "line\nbreak", 1e300, -1, False], [6, "é x", 0.1, 3, True],
                     [7, " lead", -2.5, 365, None], [9007199254740993, "NULL", 3.0, 11000, False]],
            "parquet": {"files": [4, 4], "row_group": 2}}


def table_big(n):
    return {"name": "big", "cols": [["id", "i64"], ["g", "i64"], ["v", "i64"], ["s", "str"]],
            "rows": [[i, i % 7, (i * 37) % 1000 - 500 if i % 11 else None, "s%d" % (i % 13) if i % 5 else None]
                     for i in range(n)],
            "parquet": {"files": [n], "row_group": n}}


def table_nn():
    # the shapes the text encodings cannot carry: empty strings and non-finite doubles
    return {"name": "nn", "cols": [["k", "i64"], ["s", "str"], ["x", "f64"]],
            "rows": [[1, "", ["f", str(0x7ff8000000000000)]], [2, None, ["f", str(0x7ff0000000000000)]],
                     [3, "z", ["f", str(0xfff0000000000000)]], [4, "NULL", 1.0], [5, "null", 0.1]],
            "parquet": {"files": [5], "row_group": 5}}


HUGE_N = 20000


def table_huge():
    # one file, one row group, ids in scrambled order: ORDER BY / GROUP BY id over it reach the front doors as ONE batch
    # of up to 20000 rows (more than two 4096-row Flight messages)
    n = HUGE_N
    return {"name": "huge", "cols": [["id", "i64"], ["g", "i64"], ["s", "str"]],
            "rows": [[(i * 7919) % n, i % 5, "h%d" % (i % 17)] for i in range(n)],
            "parquet": {"files": [n], "row_group": n}}


# "silent" = a test-owned TCP socket that accepts, never answers the /healthz probe (so the peer stays Unknown in
# every member's view: listed by discovery, never reached) and answers 500 to anything else, counting the fragments
# it is sent.  The probe timeout of these clusters is an hour, so Unknown does not decay into Down.
CLUSTERS = {
    "unk1": {"nodes": [{"data": "A"}, {"data": "silent"}], "probe_timeout_ms": 3600000},
    "unk3": {"nodes": [{"data": "A"}, {"data": "A"}, {"data": "silent"}], "probe_timeout_ms": 3600000},
    "single": {"nodes": [{"data": "A"}]},
    "tri": {"nodes": [{"data": "A"}, {"data": "A"}, {"data": "A"}]},
    "duo": {"nodes": [{"data": "A"}, {"data": "A"}]},
    "bad": {"nodes": [{"data": "A"}, {"data": "B"}]},
    "failpeer": {"nodes": [{"data": "A"}, {"data": "fail"}]},
    "blockpeer": {"nodes": [{"data": "A"}, {"data": "block"}]},
    "lonely": {"nodes": [{"data": "A"}], "extra_peers": ["127.0.0.1:1"]},
}


def setup_case(clusters=None):
    cl = {k: v for k, v in CLUSTERS.items() if clusters is None or k in clusters}
    return {"op": "setup", "tables": [table_t(), table_big(10000), table_nn(), table_huge()],
            "alt_tables": [table_t(), table_big(9000), table_nn(), table_huge()], "clusters": cl}


# ----------------------------------------------------------------------------------------------
# statements
# ----------------------------------------------------------------------------------------------
def gen_statement(rng):
    """A (sql, family) pair.  Families: rows (projection/filter), big (more than 4096 rows), empty, agg (exactly
    mergeable aggregates), unmergeable (shapes plan_distributed refuses), nobase, error, quirk (result shapes the
    text encodings cannot carry).  Aggregates only over integer columns, so no floating-point summation order."""
    fam = rng.choice(["rows", "rows", "big", "empty", "agg", "agg", "unmergeable", "unmergeable", "nobase", "error",
                      "error", "quirk"])
    if fam == "rows":
        cols = rng.sample(["k", "s", "x", "d", "b"], rng.randint(1, 5))
        w = rng.choice(["", "", " WHERE k > %d" % rng.randint(0, 6), " WHERE s IS NOT NULL", " WHERE b",
                        " WHERE k IS NULL OR k < %d" % rng.randint(2, 7)])
        if rng.random() < 0.3:
            return "SELECT * FROM t" + w, fam
        if rng.random() < 0.3:
            return "SELECT k + %d AS k1, UPPER(s) AS u FROM t%s" % (rng.randint(1, 9), w), fam
        if rng.random() < 0.2:
            return "SELECT id, g FROM big WHERE id < %d ORDER BY id DESC LIMIT %d" % (rng.randint(10, 9000), rng.randint(1, 9)), fam
        return "SELECT %s FROM t%s" % (", ".join(cols), w), fam
    if fam == "big" and rng.random() < 0.4:
        return gen_single_batch(rng), fam
    if fam == "big":
        lo = rng.choice([0, 0, 1, 1807, 1808, 5903, 5904, 5905])     # 10000 - lo rows: 4096/4097 among them
        cols = rng.choice(["id, s", "*", "id", "id, g, v"])
        return "SELECT %s FROM big WHERE id >= %d" % (cols, lo), fam
    if fam == "empty":
        return rng.choice(["SELECT id FROM big WHERE id < 0", "SELECT k, s FROM t WHERE k > 100000",
                           "SELECT * FROM t WHERE s = 'nope'", "SELECT g, COUNT(*) AS c FROM big WHERE id < 0 GROUP BY g"]), fam
    if fam == "agg":
        aggs = rng.sample(["COUNT(*) AS c", "SUM(v) AS sv", "MIN(v) AS mn", "MAX(v) AS mx", "AVG(v) AS av", "COUNT(v) AS cv",
                           "MIN(s) AS ms"], rng.randint(1, 4))
        w = rng.choice(["", "", " WHERE id < %d" % rng.randint(1, 10000), " WHERE v IS NOT NULL"])
        if rng.random() < 0.35:
            return "SELECT %s FROM big%s" % (", ".join(aggs), w), fam
        key = rng.choice(["g", "g", "s"])
        h = rng.choice(["", "", " HAVING COUNT(*) > %d" % rng.randint(0, 1500)])
        o = rng.choice(["", " ORDER BY %s" % key])
        return "SELECT %s, %s FROM big%s GROUP BY %s%s%s" % (key, ", ".join(aggs), w, key, h, o), fam
    if fam == "unmergeable":
        return rng.choice([
            "SELECT DISTINCT g FROM big", "SELECT COUNT(DISTINCT g) AS c FROM big",
            "SELECT k, ROW_NUMBER() OVER (ORDER BY k) AS rn FROM t", "SELECT k FROM t UNION ALL SELECT k FROM t",
            "SELECT a.k FROM t a JOIN t b ON a.k = b.k", "SELECT DISTINCT s FROM big WHERE id < %d" % rng.randint(1, 200),
            "SELECT COUNT(DISTINCT s) AS c FROM big WHERE id < %d" % rng.randint(1, 9999)]), fam
    if fam == "nobase":
        return rng.choice(["SELECT 1", "SELECT 1 AS x, 'a' AS y", "SELECT %d + 1 AS z" % rng.randint(0, 99)]), fam
    if fam == "error":
        return rng.choice(["SELECT nope FROM t", "SELECT FROM", "SELECT k FROM nosuch", "SELECT k FROM t; SELECT s FROM t",
                           "CREATE TABLE z (a INT)", "SELECT MEDIAN(v) FROM big", "SELECT k / 0 FROM t", "EXPLAIN SELECT 1",
                           "SELEC k FROM t", "SELECT k FROM t WHERE", "SELECT t.k FROM big"]), fam
    return rng.choice(["SELECT * FROM nn", "SELECT s FROM nn", "SELECT k, x FROM nn WHERE k < 4", "SELECT k AS a, s AS a FROM t",
                       "SELECT k, k FROM t", "SELECT CAST(k AS DOUBLE) / 0 AS z FROM t", "SELECT s, k FROM nn WHERE k > 3"]), fam


def gen_single_batch(rng):
    """Statements whose result reaches the front door as ONE batch of 8192 .. 20000 rows (sort / aggregation output)"""
    k = rng.choice([8192, 8193, 8194, 12288, 12289, 16385, HUGE_N, HUGE_N, rng.randint(8193, HUGE_N)])
    return rng.choice(["SELECT id, s FROM huge WHERE id < %d ORDER BY id" % k,
                       "SELECT id, g FROM huge WHERE id < %d ORDER BY id DESC" % k,
                       "SELECT id, COUNT(*) AS c FROM huge WHERE id < %d GROUP BY id" % k,
                       "SELECT id, MIN(s) AS ms, SUM(g) AS sg FROM huge WHERE id < %d GROUP BY id ORDER BY id" % k])


FORCE_WORDS = ["1", "true", "yes", "force"]
OFF_WORDS = ["0", "false", "no", "local"]


def mode_qs(rng, mode):
    if mode == "auto":
        return rng.choice(["", "distributed=auto"])
    return "distributed=" + rng.choice(FORCE_WORDS if mode == "force" else OFF_WORDS)


def fmt_qs(rng, fmt):
    return {"arrow": rng.choice(["", "format=arrow", "format=ipc"]), "json": "format=json", "csv": "format=csv"}[fmt]


def join_qs(rng, parts):
    parts = [p for p in parts if p]
    rng.shuffle(parts)
    return "&".join(parts)


def gen_query_string(rng):
    """Query strings around the two parameters: spellings, case variants, junk values, repeated keys, pairs without
    '=', empty pairs.  Only characters that are legal in a URI query."""
    keys = ["distributed", "distributed", "format", "format", "Distributed", "FORMAT", "x", "distribute", "format2", ""]
    vals = FORCE_WORDS + OFF_WORDS + ["auto", "off", "TRUE", "Auto", "2", "", "1=2", "%31", "arrow", "ipc", "json", "csv", "CSV",
                                      "xml", "json,csv", "local ".strip(), "force1", "a"]
    n = rng.randint(0, 4)
    parts = []
    for _ in range(n):
        k = rng.choice(keys)
        r = rng.random()
        if r < 0.12:
            parts.append(k)                      # no '='
        elif r < 0.2:
            parts.append("")                     # empty pair
        else:
            parts.append(k + "=" + rng.choice(vals))
    return "&".join(parts)


# ----------------------------------------------------------------------------------------------
# Coq rendering
# ----------------------------------------------------------------------------------------------
def bl(b):
    """bytes/str -> Coq list Z literal"""
    if isinstance(b, str):
        b = b.encode("utf-8")
    return "[" + "; ".join(str(x) for x in b) + "]"


KINDS = {"Parse": "KParse", "Plan": "KPlan", "Bind": "KBind", "Type": "KType", "TableNotFound": "KTableNF",
         "ColumnNotFound": "KColNF", "NotImplemented": "KNotImpl"}


def run_term_of_local(local):
    if local.get("ok"):
        return "RunOk"
    if "err" in local:
        return "(RunErr %s)" % KINDS.get(local.get("kind"), "KOther")
    return "RunTaskFailed"       # a panic inside the spawned task is a JoinError


TEXT_KINDS = [("Parse error:", "KParse"), ("Plan error:", "KPlan"), ("Bind error:", "KBind"), ("Type error:", "KType"),
              ("Table not found:", "KTableNF"), ("Column not found:", "KColNF"), ("Not implemented:", "KNotImpl")]


def kind_of_text(err):
    """QueryError's Display starts with the variant's own prefix (src/error.rs)"""
    for p, k in TEXT_KINDS:
        if (err or "").startswith(p):
            return k
    return "KOther"


def run_term_of_response(h):
    """What a force / local request reveals about the run it performed."""
    if h.get("status") == 200:
        return "RunOk"
    if h.get("status") == 500:
        return "RunTaskFailed"
    return "(RunErr %s)" % kind_of_text(h.get("error"))


def load_term(out):
    if out.get("loaded"):
        return "Loaded"
    return "LoadFailed" if out.get("load_error") else "Loading"


def env_term(out, e_local, e_dist):
    pl = out.get("plannable")
    return "(mkEnv %s %s %s %s %s)" % (load_term(out), zlit(out["members"]["up"]), blit(pl is True), e_local, e_dist)


def clean_header(s):
    """server.rs header_value: non-ASCII and control characters become spaces (and hyper trims the value)"""
    return "".join(c if (ord(c) < 128 and 32 <= ord(c) < 127) else " " for c in s).strip()


def reason_term(h, out):
    """x-qe-distributed-skipped -> (Coq option reason, text_ok)"""
    hd = h.get("headers", {})
    r = hd.get("x-qe-distributed-skipped")
    if r is None:
        return "None", True
    if r == "distributed=0 requested":
        return "(Some ROff)", True
    if r == "only one cluster member is up":
        return "(Some ROneMember)", True
    pe = out.get("plan_error")
    return "(Some RUnplannable)", (pe is not None and clean_header(pe) == r.strip())


FMT = {"arrow": "FArrow", "json": "FJson", "csv": "FCsv"}


def response_term(h, out):
    """Observed POST /sql response -> (Coq `response` term, reason_text_ok)"""
    st = h.get("status")
    hd = h.get("headers", {})
    err = h.get("error") or ""
    if st == 200:
        ct = hd.get("content-type", "")
        f = "FArrow" if ct.startswith("application/vnd.apache.arrow.stream") else "FJson" if ct.startswith("application/json") \
            else "FCsv" if ct.startswith("text/csv") else None
        if f is None:
            return "Resp400Body", False
        rt, ok = reason_term(h, out)
        return "(RespRows %s %s %s)" % (f, blit(hd.get("x-qe-distributed") == "true"), rt), ok
    if st == 503:
        return "(Resp503 %s)" % blit(err.startswith("tables failed to load")), err.startswith("tables failed to load") or err == "tables are still loading"
    if st == 413:
        return "Resp413", True
    if st == 400 and (err.startswith("unknown format") or err.startswith("unknown distributed mode")):
        return "Resp400Param", True
    if st == 400 and err in ("SQL body is not valid UTF-8", "empty SQL body"):
        return "Resp400Body", True
    return "(RespErr %s %s)" % (zlit(st or 0), blit(hd.get("x-qe-distributed") == "false")), True


def rows_ok(h, local, view="bag"):
    """200 body == the engine's rows (as bags), the x-qe-rows header == their number, the schema the engine's.
    view "count" (duplicate column names in a JSON body: one object per row, later columns overwrite earlier ones of the
    same name) compares the number of rows only."""
    if h.get("status") != 200 or not local.get("ok"):
        return h.get("status") != 200
    d = h.get("decoded") or {}
    if "decode_error" in d or "bag" not in d:
        return False
    if view == "count":
        return d["bag"]["n"] == local["bag"]["n"] and h["headers"].get("x-qe-rows") == str(local["row_count"]) and d.get("unknown_keys") is False
    want = local[view]
    if d["bag"]["hash"] != want["hash"] or d["bag"]["n"] != want["n"]:
        return False
    if h["headers"].get("x-qe-rows") != str(local["row_count"]) or local["row_count"] != want["n"]:
        return False
    fmt = h.get("format")
    if fmt == "arrow":
        return d.get("schema") == local["schema"]
    if fmt == "csv":
        return d.get("width_ok") is True and (d.get("header") == local["schema"]["cols"] if want["n"] > 0 else True)
    if fmt == "json":
        return d.get("unknown_keys") is False
    return False


def encoding_class(h, local):
    """The known encoding classes, decided by the SHAPE of the engine's result and the requested format."""
    if h.get("status") != 200 or not local.get("ok"):
        return None
    f = h.get("format")
    if f == "json" and local.get("dup_names"):
        return "json-duplicate-column-names"
    if f == "json" and local.get("has_nonfinite"):
        return "json-non-finite-double"
    if f == "csv" and local.get("has_empty_str"):
        return "csv-empty-string"
    return None


def encoding_view(h, local):
    """The bag the modelled writer produces for a result of a known class (what impl == model compares with)."""
    c = encoding_class(h, local)
    if c == "json-duplicate-column-names":
        return "count"
    if c == "json-non-finite-double":
        return "json_bag"
    if c == "csv-empty-string":
        return "csv_bag"
    return "bag"


# ----------------------------------------------------------------------------------------------
# strict JSON -> C34.Model.jvalue (what serde_json::from_slice would hand to the derived Deserialize)
# ----------------------------------------------------------------------------------------------
class _Float:
    pass


def strict_json(data):
    """bytes -> ('ok', value) with objects as lists of pairs (duplicates kept), floats as _Float; or None when
    serde_json would refuse (not UTF-8, not JSON, trailing characters, NaN/Infinity literals, lone surrogates)."""
    try:
        text = data.decode("utf-8")
    except UnicodeDecodeError:
        return None

    def bad(_):
        raise ValueError("constant")
    try:
        v = json.loads(text, object_pairs_hook=lambda ps: ("obj", ps), parse_float=lambda s: _Float(), parse_constant=bad,
                       parse_int=lambda s: ("int", int(s)))
    except (ValueError, RecursionError):
        return None

    def surrogate(x):
        if isinstance(x, str):
            return any(0xD800 <= ord(c) <= 0xDFFF for c in x)
        if isinstance(x, tuple) and x[0] == "obj":
            return any(surrogate(k) or surrogate(val) for k, val in x[1])
        if isinstance(x, list):
            return any(surrogate(y) for y in x)
        return False
    if surrogate(v):
        return None
    return ("ok", v)


def jvalue_term(v):
    if v is None:
        return "JNull"
    if isinstance(v, bool):
        return "(JBool %s)" % blit(v)
    if isinstance(v, _Float):
        return "JFloat"
    if isinstance(v, tuple) and v[0] == "int":
        return "(JInt %s)" % zlit(v[1])
    if isinstance(v, str):
        return "(JStr %s)" % bl(v)
    if isinstance(v, list):
        return "(JArr [%s])" % "; ".join(jvalue_term(x) for x in v)
    if isinstance(v, tuple) and v[0] == "obj":
        return "(JObj [%s])" % "; ".join("(%s, %s)" % (bl(k), jvalue_term(x)) for k, x in v[1])
    raise ValueError(repr(v))


def parsed_term(data):
    p = strict_json(data)
    return "None" if p is None else "(Some %s)" % jvalue_term(p[1])


# ----------------------------------------------------------------------------------------------
# source audit: both front doors are wrappers around ONE execute_statement
# ----------------------------------------------------------------------------------------------
def fn_body(src, header_re):
    m = re.search(header_re, src)
    if not m:
        return None
    i = src.index("{", m.end() - 1) if src[m.end() - 1] != "{" else m.end() - 1
    depth, j = 0, i
    while j < len(src):
        if src[j] == "{":
            depth += 1
        elif src[j] == "}":
            depth -= 1
            if depth == 0:
                return src[i:j + 1]
        j += 1
    return None


def strip_rust_comments(s):
    s = re.sub(r"//[^\n]*", "", s)
    return re.sub(r"/\*.*?\*/", "", s, flags=re.S)


# anything that runs or plans-and-runs SQL; the handlers may call none of these themselves
EXECUTORS = [r"\.sql\s*\(", r"execute_any_distributed", r"execute_distributed", r"execute_gathered", r"execute_fragment",
             r"\.execute\s*\(", r"create_physical_plan", r"plan_distributed", r"plan_gather", r"query_runtime\s*\("]


def source_audit(repo=None):
    repo = repo or vlib.REPO
    """Returns (ok, findings).  Audited from source every run:
       * flight.rs do_get calls execute_statement(&self.state, &ticket.sql, mode) exactly once and nothing else that
         executes SQL; no other function of flight.rs executes SQL (planning for the schema via physical_plan is allowed
         in get_flight_info / get_schema only);
       * server.rs sql() calls execute_statement(state, &statement, mode) exactly once and nothing else that executes SQL;
       * there is exactly one definition of execute_statement, and it is the only caller of ctx.sql / execute_any_distributed
         in server.rs outside the /fragment handler."""
    findings = []
    fl = strip_rust_comments(open(repo + "/src/distributed/flight.rs").read())
    sv = strip_rust_comments(open(repo + "/src/distributed/server.rs").read())
    do_get = fn_body(fl, r"async fn do_get\s*\(")
    sql_fn = fn_body(sv, r"async fn sql\s*\(")
    exec_fn = fn_body(sv, r"pub\(crate\) async fn execute_statement\s*\(")
    if do_get is None or sql_fn is None or exec_fn is None:
        return False, ["cannot locate do_get / sql / execute_statement in the sources"]
    if len(re.findall(r"async fn execute_statement\s*\(", sv)) != 1 or re.search(r"fn execute_statement", fl):
        findings.append("execute_statement is not defined exactly once (server.rs)")
    if len(re.findall(r"execute_statement\s*\(\s*&self\.state\s*,\s*&ticket\.sql\s*,\s*mode\s*\)", do_get)) != 1:
        findings.append("flight.rs do_get does not call execute_statement(&self.state, &ticket.sql, mode) exactly once")
    if len(re.findall(r"execute_statement\s*\(\s*state\s*,\s*&statement\s*,\s*mode\s*\)", sql_fn)) != 1:
        findings.append("server.rs sql() does not call execute_statement(state, &statement, mode) exactly once")
    if not re.search(r"use super::server::\{[^}]*\bexecute_statement\b", fl):
        findings.append("flight.rs does not import server::execute_statement")
    for pat in EXECUTORS:
        if re.search(pat, do_get):
            findings.append("flight.rs do_get executes SQL by itself: /%s/" % pat)
        if re.search(pat, sql_fn):
            findings.append("server.rs sql() executes SQL by itself: /%s/" % pat)
    # the rest of flight.rs: no executor at all (physical_plan(&sql) for the schema is planning, not execution)
    rest = fl.replace(do_get, "")
    for pat in EXECUTORS:
        if re.search(pat, rest):
            findings.append("flight.rs executes SQL outside do_get: /%s/" % pat)
    # execute_statement is where the run happens
    if not (re.search(r"ctx\.sql\s*\(\s*&statement\s*\)", exec_fn) and re.search(r"execute_any_distributed\s*\(", exec_fn)):
        findings.append("execute_statement no longer runs ctx.sql / execute_any_distributed itself")
    # the mode of a ticket reaches execute_statement unchanged
    if not re.search(r"let mode = parse_mode\(&ticket\.mode\)\?;", do_get):
        findings.append("do_get does not take the mode from the ticket via parse_mode")
    return not findings, findings
