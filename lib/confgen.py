"""Tables and statements for the configuration-independence checks (C04, C07, C08). All randomness from the given rng.
ta(c0 i64 null, c1 i32 null, c2 f64 null, c3 str null, c4 date null, c5 i64 NOT NULL small dense)  tb(c0 i32 null, c1 str null, c2 i64 NOT NULL)
ta.c0 = tb.c0 is an i64 = i32 equi-join (mixed key widths); ta.c3 = tb.c1 a string join; ta x ta statements share one table
(the planner's shared prescan when ta is Parquet). Predicates are single atoms (no AND/OR: the NULL-strict kernels of C02 are
not this property's subject)."""
from fractions import Fraction
import relgen
from relgen import col, lit, tbl

TA = ["i64", "i32", "f64", "str", "date", "i64"]
TB = ["i32", "str", "i64"]
STRS = ["a", "b", "ab", "", "é", "B", "zz"]

def maybe(rng, p, v):
    return None if rng.random() < p else v

# c5 values around the 2^20-key chunk boundaries of the dense direct-address GROUP BY (one presence-bitmap chunk = 16384 words)
DENSE_WIDE = [0, 1, 9, 1048575, 1048576, 1048577, 2000000, 2097151, 2097152, 2097153, 3000000]

def gen_tables(rng, n, m, null_p=0.2, kr=6, wide_str=False, dense_wide=False):
    def s():
        return rng.choice(STRS) if not wide_str or rng.random() < 0.5 else f"s{rng.randint(0, 40)}"
    def c5():
        return rng.choice(DENSE_WIDE) if dense_wide else rng.randint(0, 9)
    ta = [[maybe(rng, null_p, rng.randint(-2, kr)), maybe(rng, null_p, rng.randint(0, 5)),
           maybe(rng, null_p, ("q", Fraction(rng.choice([0, 1, 3, 5, -3, 10, 7]), rng.choice([1, 2, 4])))),
           maybe(rng, null_p, s()), maybe(rng, null_p, ("d", rng.choice([-1, 0, 1, 365, 10957, 400, 20]))),
           c5()] for _ in range(n)]
    if ta and rng.random() < 0.5:
        for _ in range(rng.randint(1, 3)):
            ta.insert(rng.randint(0, len(ta)), list(rng.choice(ta)))
        ta = ta[:n]
    tb = [[maybe(rng, null_p, rng.randint(-2, kr)), maybe(rng, null_p, s()), rng.randint(0, 9)] for _ in range(m)]
    return ({"name": "ta", "types": list(TA), "rows": ta}, {"name": "tb", "types": list(TB), "rows": tb})

AGGS = [("ACountStar", lit(1)), ("ACount", col(0)), ("ACount", col(3)), ("ASum", col(0)), ("ASum", col(5)), ("ASum", col(2)),
        ("AAvg", col(2)), ("AAvg", col(5)), ("AMin", col(0)), ("AMax", col(0)), ("AMin", col(2)), ("AMax", col(2)),
        ("AMin", col(3)), ("AMax", col(3)), ("AMin", col(4)), ("AMax", col(4)),
        ("ACountDistinct", col(1)), ("ACountDistinct", col(3)), ("ACountDistinct", col(0))]
DENSE_AGGS = [("ACountStar", lit(1)), ("ACount", col(3)), ("ASum", col(5)), ("ASum", col(2)), ("AAvg", col(2)), ("ASum", col(0))]

def atom(rng, types, offset=0):
    return relgen.gen_pred(rng, types, 0, offset)

def sort_keys(rng, idxs):
    # (expr, desc, nulls_first | None)
    return [(col(i), rng.random() < 0.5, rng.choice([None, None, True, False])) for i in idxs]

def gen_statement(rng, ta, tb, kind):
    A, B = tbl(0, ta), tbl(1, tb)
    wa = len(TA)
    if kind == "filter":
        return ("filter", A, atom(rng, TA))
    if kind == "project":
        src = A if rng.random() < 0.5 else ("filter", A, atom(rng, TA))
        return ("project", src, [col(3), ("arith", "AAdd", col(0), col(5)), col(2), ("arith", "AMul", col(1), lit(2)), col(4)])
    if kind in ("join", "join-outer", "join-right", "join-full"):
        jt = (rng.choice(["JInner", "JInner", "JLeft"]) if kind == "join" else "JRight" if kind == "join-right" else
              "JFull" if kind == "join-full" else rng.choice(["JRight", "JFull", "JLeft"]))
        k = rng.random()
        if k < 0.55:
            on = ("cmp", "CEq", col(0), col(wa + 0))                          # i64 = i32
        elif k < 0.8:
            on = ("cmp", "CEq", col(3), col(wa + 1))                          # str = str
        else:
            on = ("and", ("cmp", "CEq", col(0), col(wa + 0)), ("cmp", "CEq", col(3), col(wa + 1)))
        left = A if rng.random() < 0.6 else ("filter", A, atom(rng, TA))
        q = ("join", jt, left, B, on)
        if rng.random() < 0.3:
            q = ("filter", q, atom(rng, TA))
        return q
    if kind == "self-join":
        # the same table twice: shared prescan with a union projection when ta is Parquet
        l = ("project", ("filter", A, ("cmp", "CLe", col(5), lit(rng.randint(0, 3)))), [col(5), col(3)])
        r = ("project", A, [col(1), col(2)])
        return ("join", rng.choice(["JInner", "JLeft"]), l, r, ("cmp", "CEq", col(0), col(2)))
    if kind == "cross":
        l = ("project", ("filter", A, ("cmp", "CLe", col(5), lit(1))), [col(0), col(3)])
        r = ("project", ("filter", B, ("cmp", "CLe", col(2), lit(2))), [col(0)])
        return ("join", "JCross", l, r, lit(True))
    if kind == "agg":
        nk = rng.choice([1, 1, 2, 3])
        keys = [col(i) for i in rng.sample([0, 1, 3, 4, 5], nk)]
        pool = AGGS if rng.random() < 0.5 else [a for a in AGGS if a[0] != "ACountDistinct"]
        src = A if rng.random() < 0.7 else ("filter", A, atom(rng, TA))
        return ("agg", src, keys, rng.sample(pool, rng.randint(1, 4)))
    if kind == "agg-dense":
        # one plain integer key without NULLs, COUNT/SUM/AVG only: the dense direct-address path over Parquet
        key = col(5)
        src = A if rng.random() < 0.6 else ("filter", A, atom(rng, TA))
        return ("agg", src, [key], rng.sample(DENSE_AGGS, rng.randint(1, 3)))
    if kind == "agg-intkey":
        # one plain nullable integer/date key, COUNT/SUM/AVG only
        key = col(rng.choice([0, 1, 4]))
        return ("agg", A, [key], rng.sample(DENSE_AGGS, rng.randint(1, 3)))
    if kind == "agg-global":
        src = A if rng.random() < 0.6 else ("filter", A, atom(rng, TA))
        return ("agg", src, [], rng.sample(AGGS, rng.randint(1, 4)))
    if kind == "agg-join":
        j = ("join", "JInner", A, B, ("cmp", "CEq", col(0), col(wa + 0)))
        return ("agg", j, [col(1)], [("ACountStar", lit(1)), ("ASum", col(wa + 2)), ("AMin", col(3))])
    if kind == "distinct":
        cs = rng.sample(range(6), rng.randint(1, 3))
        return ("distinct", ("project", A, [col(i) for i in cs]))
    if kind == "union":
        all_ = rng.random() < 0.5
        if rng.random() < 0.5:
            l, r = ("project", A, [col(5), col(3)]), ("project", B, [col(2), col(1)])       # i64/i64, str/str
        else:
            l, r = ("project", A, [col(0), col(3)]), ("project", A, [col(5), col(3)])       # the same table twice
        return ("setop", "SUnion", all_, l, r)
    if kind == "union-mixed":
        return ("setop", "SUnion", rng.random() < 0.5, ("project", A, [col(0)]), ("project", B, [col(0)]))   # i64 / i32
    if kind in ("sort", "topk", "sort-offset"):
        cs = rng.sample(range(6), rng.randint(2, 3))
        src = ("project", A if rng.random() < 0.7 else ("filter", A, atom(rng, TA)), [col(i) for i in cs])
        nk = len(cs) if rng.random() < 0.7 else rng.randint(1, len(cs))
        s = ("sort", src, sort_keys(rng, list(range(nk))))
        n = len(ta["rows"])
        if kind == "topk":
            return ("limit", s, 0, rng.choice([0, 1, 3, max(1, n // 2), n + 2]))
        if kind == "sort-offset":
            return ("limit", s, rng.choice([1, 2, max(1, n // 3)]), rng.choice([None, 1, 4, n]))
        return s
    if kind == "sort-agg":
        a = ("agg", A, [col(1), col(3)], [("ACountStar", lit(1)), ("ASum", col(5))])
        return ("sort", a, sort_keys(rng, [0, 1, 2, 3]))
    if kind == "sort-join":
        j = ("project", ("join", "JInner", A, B, ("cmp", "CEq", col(0), col(wa + 0))), [col(0), col(5), col(wa + 2)])
        s = ("sort", j, sort_keys(rng, [0, 1, 2]))
        return s if rng.random() < 0.5 else ("limit", s, 0, rng.choice([1, 5]))
    raise ValueError(kind)

KINDS = ["filter", "project", "join", "join-outer", "self-join", "cross", "agg", "agg", "agg-dense", "agg-intkey", "agg-global",
         "agg-join", "distinct", "union", "union-mixed", "sort", "sort", "topk", "sort-offset", "sort-agg", "sort-join"]

def plain_agg_sql(q):
    """An aggregate directly over a table (optionally WHERE) rendered WITHOUT a table alias or derived table: the planner's
    try_extract_parquet_source only recognises this shape, so only it reaches MorselAggregateExec over Parquet."""
    import sqlgen, sqlq
    if q[0] != "agg":
        return None
    src, where = q[1], None
    if src[0] == "filter" and src[1][0] == "table":
        src, where = src[1], src[2]
    if src[0] != "table":
        return None
    # output names o0.. : a select alias equal to an input column name is resolved INSIDE later aggregate arguments by this
    # engine (`SELECT c1 AS c0, MIN(c0) ..` takes MIN over c1), which is not this property's subject
    sel = [f"{sqlgen.e_sql(k)} AS o{i}" for i, k in enumerate(q[2])]
    for j, (fn, e) in enumerate(q[3]):
        sel.append(sqlq.FN_SQL[fn].format(sqlgen.e_sql(e)) + f" AS o{len(q[2]) + j}")
    s = f"SELECT {', '.join(sel)} FROM {src[2]}"
    if where is not None:
        s += f" WHERE {sqlgen.e_sql(where)}"
    if q[2]:
        s += " GROUP BY " + ", ".join(sqlgen.e_sql(k) for k in q[2])
    return s

def gen_queries(rng, ta, tb, kinds):
    out = []
    for k in kinds:
        q = gen_statement(rng, ta, tb, k)
        x = {"q": q, "kind": k}
        if k.startswith("agg") and rng.random() < 0.75:
            sql = plain_agg_sql(q)
            if sql:
                x["sql"] = sql
                x["kind"] = k + "(plain)"
        out.append(x)
    return out

def split(rng, n, lo, hi):
    out, left = [], n
    while left > 0:
        k = min(left, rng.randint(lo, max(lo, hi)))
        out.append(k); left -= k
    return out

def sort_shape(q):
    """(keys, fetch_fused) of a top-level ORDER BY [LIMIT]; None otherwise"""
    if q[0] == "sort":
        return q[2], None
    if q[0] == "limit" and q[1][0] == "sort":
        return q[1][2], (q[3] if (q[2] == 0 and q[3] is not None) else None)
    return None
