#!/bin/sh
# Build the framework from files on disk only (offline): full .vo build of the Coq development
# and every correspondence harness binary against /repo's working tree.
set -e
cd "$(dirname "$0")"
export CARGO_NET_OFFLINE=true
mkdir -p .work evidence replays
python3 -c "import sys; sys.path.insert(0,'lib'); import vlib; vlib.run_gen(); vlib.write_coq_project()"
( cd coq && coq_makefile -f _CoqProject -o Makefile.coq >/dev/null && timeout 3400 make -f Makefile.coq -j16 )
cp /repo/Cargo.lock harness/Cargo.lock
( cd harness && timeout 3400 cargo build --offline --quiet --bins 2>&1 | grep -v "^warning\|^ *|\|^ *-->\|^ *=\|^$" | tail -20 ; test -x target/debug/c12 )
echo setup-ok
