#!/bin/sh
# Build the framework from files on disk only (offline): full .vo build of the Coq development
# and every correspondence harness binary against /repo's working tree. Each check re-builds what
# it needs itself (make / cargo are incremental), so a failure of an unrelated file here must not
# stop the others: make -k, one cargo invocation per binary.
cd "$(dirname "$0")"
export CARGO_NET_OFFLINE=true
mkdir -p .work evidence replays
python3 -c "import sys; sys.path.insert(0,'lib'); import vlib; vlib.run_gen(); vlib.write_coq_project()"
( cd coq && coq_makefile -f _CoqProject -o Makefile.coq >/dev/null && timeout 3400 make -k -f Makefile.coq -j16 2>&1 | grep -E "Error|error|\*\*\*" | head -20 )
cp /repo/Cargo.lock harness/Cargo.lock
( cd harness && timeout 3400 cargo build --offline --quiet --lib 2>&1 | grep -E "^error" -A 8 | head -40
  for f in src/bin/*.rs; do
    b=$(basename "$f" .rs)
    timeout 1800 cargo build --offline --quiet --bin "$b" 2>&1 | grep -E "^error" -A 8 | head -20
  done )
test -x harness/target/debug/c12 && test -f coq/theories/Props/C12.vo && echo setup-ok
