#!/bin/sh
# Build the framework from files on disk only (offline): full .vo build of the Coq development
# and the correspondence harness against /repo's working tree.
set -e
cd "$(dirname "$0")"
export CARGO_NET_OFFLINE=true
mkdir -p .work evidence replays
[ -f tools/rs2v.py ] && python3 tools/rs2v.py
( cd coq && coq_makefile -f _CoqProject -o Makefile.coq >/dev/null && timeout 3000 make -f Makefile.coq -j16 ) 
cp /repo/Cargo.lock harness/Cargo.lock
( cd harness && timeout 3400 cargo build --offline --quiet )
echo setup-ok
